"""C09 d: farthest-failure selection in Choice.

The emitted failure epilogue only *compares* positions (<, <=) and copies them, so evaluating the
emitted skeleton over every weak ordering of the options' failure positions (ranks relative to
the entry position) is exhaustive for that arity.  The evaluator below interprets exactly the
statement forms the Choice skeleton uses; anything else is exit 2."""
import ast
import itertools

from .common import Finding, AnalysisError, Unsupported
from . import skeleton as SK
from . import flow as F


class Brk(Exception):
    pass


def ev(e, env):
    if isinstance(e, ast.Name):
        if e.id.startswith('_raise_error'):
            return 'ERRSELF'
        if e.id not in env:
            raise AnalysisError(f'farthest: read of unassigned {e.id}')
        return env[e.id]
    if isinstance(e, ast.Constant):
        return e.value
    if isinstance(e, ast.UnaryOp) and isinstance(e.op, ast.Not):
        return not ev(e.operand, env)
    if isinstance(e, ast.BoolOp):
        vals = [ev(v, env) for v in e.values]
        return all(vals) if isinstance(e.op, ast.And) else any(vals)
    if isinstance(e, ast.Compare) and len(e.ops) == 1:
        l, r = ev(e.left, env), ev(e.comparators[0], env)
        op = type(e.ops[0])
        table = {ast.Lt: l < r, ast.LtE: l <= r, ast.Gt: l > r, ast.GtE: l >= r, ast.Eq: l == r, ast.NotEq: l != r}
        if op not in table:
            raise Unsupported('comparison in Choice skeleton')
        return table[op]
    raise Unsupported(f'expression {type(e).__name__} in Choice skeleton')


def run_block(stmts, env, outcome):
    for st in stmts:
        if F.is_child_marker(st):
            slot = st.value.args[0].value
            ok, p = outcome[slot]
            env['_status'] = ok
            env['_result'] = ('OK' if ok else 'ERR', slot)
            env['_pos'] = p
        elif isinstance(st, ast.Assign):
            v = ev(st.value, env)
            for t in st.targets:
                if not isinstance(t, ast.Name):
                    raise Unsupported('store target in Choice skeleton')
                env[t.id] = v
        elif isinstance(st, ast.If):
            run_block(st.body if ev(st.test, env) else st.orelse, env, outcome)
        elif isinstance(st, ast.While):
            try:
                n = 0
                while ev(st.test, env):
                    n += 1
                    if n > 50:
                        raise AnalysisError('farthest: loop does not terminate')
                    run_block(st.body, env, outcome)
            except Brk:
                pass
        elif isinstance(st, ast.Break):
            raise Brk()
        elif isinstance(st, (ast.Pass, ast.Expr)):
            pass
        else:
            raise Unsupported(f'statement {type(st).__name__} in Choice skeleton')


def choice_farthest(rep, tier):
    w = SK.World()
    maxn = 4 if tier == 'thorough' else 3
    fail_flags = SK.child_states(w, allow_fail=True)
    n_cases = 0
    for n in range(1, maxn + 1):
        slots = [f'c{i}' for i in range(n)]
        for kinds in itertools.product(['CP', 'Fail'], repeat=n):
            ch = {}
            for s, k in zip(slots, kinds):
                ch[s] = SK.A(s, 'CP', kind='Fail' if k == 'Fail' else None)
            cfg = SK.Config('Choice', [ch[s] for s in slots], {}, ch, label=f'Choice:farthest,n={n},{kinds}')
            b = w.build(cfg)
            for ranks in itertools.product(range(n + 1), repeat=n):
                # a Fail option never moves the position
                pos = [0 if k == 'Fail' else r for r, k in zip(ranks, kinds)]
                if any(k == 'Fail' and r != 0 for r, k in zip(ranks, kinds)):
                    continue
                outcome = {s: (False, p) for s, p in zip(slots, pos)}
                env = {'_pos': 0, '_result': 'IN', '_status': None}
                run_block(b.tree.body, env, outcome)
                n_cases += 1
                m = max(pos + [0])
                okpos = env['_pos'] == m and env['_status'] is False
                attain = [('ERR', s) for s, p in zip(slots, pos) if p == m]
                okres = env['_result'] in attain or (m == 0 and env['_result'] == 'ERRSELF')
                # first option winning ties among ordinary options
                first = next((('ERR', s) for s, p, k in zip(slots, pos, kinds) if p == m and k != 'Fail'), None)
                fails = [('ERR', s) for s, p, k in zip(slots, pos, kinds) if p == m and k == 'Fail']
                if m > 0 and first is not None and env['_result'] != first:
                    okres = False
                if not (okpos and okres):
                    rep.add(Finding('FARTHEST', 'Choice', f'n={n}',
                                    f'Choice with options {kinds} failing at relative positions {pos}: the skeleton '
                                    f'reports position {env["_pos"]} with error {env["_result"]}; the farthest failure '
                                    f'is at {m}' + (f' (first reached by {first[1]})' if first else ''),
                                    'sourcer/expressions/choice.py:Choice._compile', {'skeleton': b.src}))
                rep.oblige(okpos and okres)
    rep.count('Choice failure orderings evaluated', n_cases)
    rep.floor('Choice failure orderings evaluated', n_cases, 80)
