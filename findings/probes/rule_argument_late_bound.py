from sourcer import Grammar
import sys
A = Grammar('grammar probe_f11_a\nstart = T(X)\nT(p) = p << "!"\nX = "a"')
B = Grammar('grammar probe_f11_b extends probe_f11_a\nX = "b"')
try:
    r = B.parse('b!'); print('late-bound argument:', r)
except Exception as e:
    print('NOT late-bound:', type(e).__name__); sys.exit(1)
