"""Rules over complete emitted modules (see modroute.py): calling-convention conformance,
context wiring, free-name closure, ignore distribution, error functions, class tables."""
import ast
import builtins
import re

from .common import AnalysisError, Finding
from . import load
from . import modroute
from . import metaeval as M
from . import paths as P
from . import walkers

_cache = {}


def impl(name):
    return f'_try_{name}'


# --------------------------------------------------------------------------- route grammars
def route_grammars(R):
    """-> list of (label, body-builder, kwargs for emit).  Builders are called once per
    emission (generate_source_code mutates the expression objects)."""
    G = []

    def plain():
        return [R.Rule('start', R.Right(R.Str('a'), R.Ref('X'))),
                R.Rule('X', R.Regex('b+')),
                R.Rule('Y', R.Choice(R.Ref('X'), R.Str('c')))]
    G.append(('plain', plain, {}))

    def ignore_named():
        return plain() + [R.Rule('Space', R.Regex(r'\s+'), ignored=True)]
    G.append(('ignore-named', ignore_named, {}))

    def ignore_anon():
        return plain() + [R.Rule(None, R.Regex(r'\s+'), ignored=True)]
    G.append(('ignore-anon', ignore_anon, {}))

    def ignore_two_first():
        return [R.Rule(None, R.Regex(r'#[^\n]*'), ignored=True),
                R.Rule('Space', R.Seq(R.Str('{-'), R.Regex('[A-Z]+'), R.Str('-}')), ignored=True)] + plain()
    G.append(('ignore-two-first', ignore_two_first, {}))

    def ignore_lookahead():
        # literals inside lookaheads, options and repetitions skip like any other literal
        e = R.Seq(R.new('Expect', R.Right(R.Str('('), R.Str(')'))),
                  R.new('ExpectNot', R.Seq(R.Str('end'), R.Str('if'))),
                  R.Opt(R.Right(R.Str('['), R.Str(']'))),
                  R.List(R.Seq(R.Str(','), R.Regex('[0-9]+'))),
                  R.Ref('X'))
        return [R.Rule('start', e), R.Rule('X', R.Regex('b+')),
                R.Rule('Space', R.Regex(r'\s+'), ignored=True)]
    G.append(('ignore-lookahead', ignore_lookahead, {}))

    def class_start():
        return [R.Class('Start', [R.Rule('a', R.Str('x')), R.Rule('b', R.Ref('X'))]),
                R.Rule('X', R.Regex('b+')),
                R.Rule('Space', R.Regex(r'\s+'), ignored=True)]
    G.append(('class-start-ignore', class_start, {}))

    def class_start_const():
        # the start class begins with a constant `let` member (a bare literal): the leading skip still
        # comes before anything is matched
        return [R.Class('Start', [R.Rule('kind', R.Str('doc'), omitted=True), R.Rule('a', R.Str('x')),
                                  R.Rule('b', R.Ref('X'))]),
                R.Rule('X', R.Regex('b+')),
                R.Rule('Space', R.Regex(r'\s+'), ignored=True)]
    G.append(('class-start-const-ignore', class_start_const, {}))

    def classes():
        req = R.Rule(None, R.Where(R.Py('None'), R.Py('lambda _: zf != g')), omitted=True)
        return [R.Rule('start', R.Ref('K')),
                R.Class('K', [R.Rule('zf', R.Ref('X')),
                              R.Rule('g', R.Str('q'), omitted=True),
                              R.Rule(None, R.Str('z'), omitted=True),
                              req,
                              R.Rule('ah', R.Call(R.Ref('P'), [R.Py('2')]))]),
                R.Class('P', [R.Rule('v', R.List(R.Ref('X'), min_len='n', max_len='n'))], params=['n']),
                R.Class('E', []),
                R.Rule('X', R.Regex('b+'))]
    G.append(('classes', classes, {}))

    def templates():
        T = lambda *args: R.Call(R.Ref('T'), list(args))
        return [R.Rule('start', R.Ref('U')),
                R.Rule('T', R.Right(R.Ref('p'), R.Str('!')), params=['p']),
                R.Rule('U', T(R.Str('a'))),
                R.Rule('V', T(R.Ref('X'))),
                R.Rule('W', T(R.Ref('q')), params=['q']),
                R.Rule('Z', T(R.Seq(R.Str('a'), R.Ref('X')))),
                R.Rule('A1', T(R.Seq(R.Ref('r'), R.Str('x'))), params=['r']),
                R.Rule('B2', T(R.Seq(R.Ref('r'), R.Ref('s'))), params=['r', 's']),
                R.Rule('C3', T(R.Seq(R.Ref('r'), R.Ref('s'), R.Ref('t'))), params=['r', 's', 't']),
                R.Rule('KWC', T(R.Kw('p', R.Str('k')))),
                R.Rule('KWR', T(R.Kw('p', R.Ref('X')))),
                R.Rule('PYC', T(R.Py('1 + 1'))),
                R.Rule('BYT', T(R.Byte(0x41))),
                R.Rule('NEST', T(T(R.Str('n')))),
                R.Rule('EMPTY', R.Choice(R.Seq(R.Ref('X'), R.Str('x')), R.Seq(R.Call(R.Ref('X'), []), R.Str('z')))),
                # a template that invokes its parameter with an empty argument list, given a rule
                R.Rule('PK', R.Seq(R.Call(R.Ref('q'), []), R.Str('!')), params=['q']),
                R.Rule('PKU', R.Choice(R.Call(R.Ref('PK'), [R.Ref('X')]), R.Ref('X'))),
                # two parameters whose declared order is not their sorted order, passed positionally
                R.Rule('T2', R.Seq(R.Ref('tag'), R.Str(':'), R.Ref('body')), params=['tag', 'body']),
                R.Rule('T2U', R.Call(R.Ref('T2'), [R.Str('t'), R.Ref('X')])),
                # keywords written in another order than declared; positional mixed with keyword
                R.Rule('T2K', R.Call(R.Ref('T2'), [R.Kw('body', R.Ref('X')), R.Kw('tag', R.Str('t'))])),
                R.Rule('T2M', R.Call(R.Ref('T2'), [R.Str('t'), R.Kw('body', R.Ref('X'))])),
                R.Rule('X', R.Regex('b+'))]
    G.append(('templates', templates, {}))

    def templates_ignore():
        return templates() + [R.Rule('Space', R.Regex(r'\s+'), ignored=True)]
    G.append(('templates-ignore', templates_ignore, {}))

    def shadow():
        return [R.Rule('start', R.Call(R.Ref('Listing'), [R.Ref('Number')])),
                R.Rule('Item', R.Regex('[a-z]+')),
                R.Rule('Number', R.Regex('[0-9]+')),
                R.Rule('Listing', R.Right(R.Str('['), R.Ref('Item')), params=['Item']),
                R.Rule('L2', R.Let('Item', R.Str('a'), R.Right(R.Str('='), R.Ref('Item')))),
                R.Class('CP', [R.Rule('v', R.Ref('Number'))], params=['Number']),
                # the same argument text where `Item` is a rule and where it is a parameter
                R.Rule('Parens', R.Right(R.Str('('), R.Ref('p')), params=['p']),
                R.Rule('Plain', R.Call(R.Ref('Parens'), [R.Left(R.Ref('Item'), R.Str(';'))])),
                R.Rule('Tagged', R.Call(R.Ref('Parens'), [R.Left(R.Ref('Item'), R.Str(';'))]), params=['Item']),
                R.Rule('Tagged2', R.Call(R.Ref('Parens'), [R.Left(R.Ref('Item'), R.Str(';'))]), params=['Item']),
                # a `let` inside the body of a `let` of the same name: after the inner one ends, the name
                # denotes the outer value again
                R.Rule('L3', R.Let('x', R.Str('1'), R.Seq(R.Let('x', R.Str('2'), R.Py('x')), R.Py('x')))),
                # a parameter that shadows a rule, re-bound by a `let` inside a template argument (a helper
                # function of its own) that has ended before the parameter is used again
                R.Rule('L4', R.Let('y', R.Str('1'), R.Seq(R.Let('y', R.Str('2'), R.Ref('y')), R.Ref('y')))),
                R.Rule('NS', R.Right(R.Call(R.Ref('Parens'), [R.Let('Item', R.Ref('Number'), R.Ref('Item'))]),
                                     R.Ref('Item')), params=['Item'])]
    G.append(('shadow', shadow, {}))

    def deep():
        e = R.Seq(R.Ref('X'), R.Str('y'), R.Call(R.Ref('T'), [R.Ref('X')]))
        for i in range(24):
            e = R.Seq(e) if i % 2 else R.Opt(e)
        inner = R.Seq(R.Ref('v'), R.Str('w'))
        for i in range(24):
            inner = R.Seq(inner)
        def nest(x):
            for i in range(24):
                x = R.Seq(x)
            return x
        return [R.Rule('start', e),
                # the same deep text where X is the rule and where X is a parameter: each gets a helper
                # of its own (the second one is handed the parameter)
                R.Rule('DW', nest(R.Seq(R.Ref('X'), R.Str(';')))),
                R.Rule('DE', nest(R.Seq(R.Ref('X'), R.Str(';'))), params=['X']),
                R.Rule('D', R.Let('v', R.Ref('X'), inner)),
                # a `let` that lies inside the part that is split off: its name is bound by the helper
                # itself, not handed to it
                R.Rule('DL', nest(R.Let('u', R.Ref('X'), R.Seq(R.Ref('u'), R.Str(';'))))),
                R.Rule('T', R.Right(R.Ref('p'), R.Str('!')), params=['p']),
                R.Rule('X', R.Regex('b+')),
                R.Rule('Space', R.Regex(r'\s+'), ignored=True)]
    G.append(('deep-nesting', deep, {}))

    def deep_plain():
        e = R.Seq(R.Str('a'), R.Str('b'))
        for i in range(24):
            e = R.Seq(e)
        return [R.Rule('start', e)]
    G.append(('deep-nesting-plain', deep_plain, {}))

    def deep_literals_ignore():
        # only literals beyond the split, but the grammar declares ignore patterns: the literals
        # suspend to skip ignorable text
        return deep_plain() + [R.Rule('Space', R.Regex(r'\s+'), ignored=True)]
    G.append(('deep-nesting-literals-ignore', deep_literals_ignore, {}))

    def deep_threshold():
        # one rule per nesting depth, so that every position of the block-budget threshold is
        # crossed: two sibling elements that are both split out of one enclosing function
        rules = []
        for d in range(9, 24):
            e = R.Seq(R.Seq(R.Str('a'), R.Str('b')), R.Seq(R.Str('c'), R.Str('d')))
            for i in range(d):
                e = R.Seq(e)
            rules.append(R.Rule(f'S{d}', e))
        for d in range(10, 24, 4):
            e = R.Seq(R.List(R.Left(R.Seq(R.Ref('X')), R.Str(';'))), R.Seq(R.Str('c'), R.Ref('X')))
            for i in range(d):
                e = R.Seq(e) if i % 2 else R.Opt(e)
            rules.append(R.Rule(f'M{d}', e))
        # a never-failing node (repetition, option) at every depth: where it is the node that is split
        # off, its status must still reach the status register of the caller
        for d in range(9, 24):
            e = R.List(R.Str('y'))
            for i in range(d):
                e = R.Seq(e)
            rules.append(R.Rule(f'A{d}', e))
        for d in range(10, 24, 3):
            e = R.Opt(R.Ref('X'))
            for i in range(d):
                e = R.Seq(e)
            rules.append(R.Rule(f'O{d}', e))
        # a binder at every depth: wherever the split falls, a name bound inside the part that is split
        # off stays inside it, a name bound outside is handed in
        for d in range(9, 24, 2):
            e = R.Let('u', R.Ref('X'), R.Seq(R.Ref('u'), R.Str(';')))
            for i in range(d):
                e = R.Seq(e)
            rules.append(R.Rule(f'B{d}', R.Let('w', R.Ref('X'), R.Seq(e, R.Ref('w')))))
        return [R.Rule('start', R.Ref('S9'))] + rules + [R.Rule('X', R.Regex('b+'))]
    G.append(('deep-nesting-threshold', deep_threshold, {'names': (None,)}))

    def inline_python():
        # inline Python in every position the grammar language allows it (each text carries a marker
        # name zz_*): argument of a template / of a class, keyword argument, applied function, predicate,
        # value of a `let`, element of a sequence, repetition bound
        return [R.Rule('start', R.Call(R.Ref('T'), [R.Py('zz_arg()')])),
                R.Rule('T', R.Right(R.Ref('p'), R.Str('!')), params=['p']),
                R.Class('P', [R.Rule('v', R.Ref('X')), R.Rule('w', R.Ref('n'))], params=['n']),
                R.Rule('CA', R.Call(R.Ref('P'), [R.Py('zz_cls_arg()')])),
                R.Rule('KA', R.Call(R.Ref('T'), [R.Kw('p', R.Py('zz_kw_arg()'))])),
                R.Rule('AP', R.new('Apply', R.Ref('X'), R.Py('zz_fn()'))),
                R.Rule('WH', R.Where(R.Ref('X'), R.Py('zz_pred()'))),
                R.Rule('LT', R.Let('q', R.Py('zz_let()'), R.Seq(R.Ref('X'), R.Py('q')))),
                R.Rule('SQ', R.Seq(R.Ref('X'), R.Py('zz_elem()'))),
                R.Rule('RB', R.List(R.Ref('X'), min_len='zz_lo()', max_len='zz_hi()')),
                R.Rule('NA', R.Call(R.Ref('T'), [R.Call(R.Ref('T'), [R.Py('zz_nested_arg()')])])),
                R.Rule('X', R.Regex('b+'))]
    G.append(('inline-python', inline_python, {}))

    def let():
        return [R.Rule('start', R.Let('x', R.Ref('X'), R.Call(R.Ref('T'), [R.Ref('x')]))),
                R.Rule('T', R.Right(R.Ref('p'), R.Str('!')), params=['p']),
                R.Rule('X', R.Regex('b+'))]
    G.append(('let', let, {}))
    return G


def sub_routes(R):
    """-> list of (label, parent body nodes (parser stub nodes), parent expression builder,
    child builder, parent name)"""
    N = modroute.node

    def parent_nodes(anon_ignore):
        nodes = [N('RuleDef', is_override=False, is_ignored=False, name='start', params=None, expr=None),
                 N('RuleDef', is_override=False, is_ignored=False, name='X', params=None, expr=None),
                 N('RuleDef', is_override=False, is_ignored=False, name='Y', params=None, expr=None),
                 N('ClassDef', name='K', params=None, members=[])]
        if anon_ignore:
            nodes.append(N('IgnoreStmt', expr=None))
        else:
            nodes.append(N('RuleDef', is_override=False, is_ignored=True, name='Space', params=None, expr=None))
        return nodes

    def parent_exprs(anon_ignore):
        def build():
            return [R.Rule('start', R.Right(R.Str('a'), R.Ref('X'))),
                    R.Rule('X', R.Regex('b+')),
                    R.Rule('Y', R.Choice(R.Ref('X'), R.Str('c'))),
                    R.Class('K', [R.Rule('f', R.Ref('X'))]),
                    R.Rule(None if anon_ignore else 'Space', R.Regex(r'\s+'), ignored=True)]
        return build

    def child():
        return [R.Rule('X', R.Choice(R.Super('X'), R.Str('z'))),
                R.Rule('N', R.Seq(R.Ref('X'), R.Ref('Y'), R.Ref('K')))]

    def child_ignore():
        return child() + [R.Rule('Comment', R.Regex('#.*'), ignored=True)]
    def child_start():
        # a start rule of its own, no ignore declaration of its own
        return child() + [R.Rule('start', R.Choice(R.Ref('N'), R.Str('q')))]

    def child_class_start():
        return [R.Class('Start', [R.Rule('a', R.Str('x')), R.Rule('b', R.Ref('X'))])] + child()
    out = []
    for anon in (False, True):
        tag = 'anon' if anon else 'named'
        out.append((f'sub-{tag}-ignore', parent_nodes(anon), parent_exprs(anon), child))
        out.append((f'sub-{tag}-ignore+own', parent_nodes(anon), parent_exprs(anon), child_ignore))
    out.append(('sub-named-ignore+start', parent_nodes(False), parent_exprs(False), child_start))
    out.append(('sub-named-ignore+class-start', parent_nodes(False), parent_exprs(False), child_class_start))

    # the base's start rule is a class; the sub-grammar defines no start of its own
    def cs_nodes():
        return [N('ClassDef', name='Start', params=None, members=[]),
                N('RuleDef', is_override=False, is_ignored=False, name='X', params=None, expr=None),
                N('RuleDef', is_override=False, is_ignored=False, name='Y', params=None, expr=None),
                N('ClassDef', name='K', params=None, members=[]),
                N('RuleDef', is_override=False, is_ignored=True, name='Space', params=None, expr=None)]

    def cs_exprs():
        return [R.Class('Start', [R.Rule('a', R.Str('x')), R.Rule('b', R.Ref('X'))]),
                R.Rule('X', R.Regex('b+')),
                R.Rule('Y', R.Choice(R.Ref('X'), R.Str('c'))),
                R.Class('K', [R.Rule('f', R.Ref('X'))]),
                R.Rule('Space', R.Regex(r'\s+'), ignored=True)]
    out.append(('sub-class-start', cs_nodes(), cs_exprs, child))
    return out


def emitted_modules():
    """-> (R, list of Emitted or (label, MetaRaise))"""
    if 'mods' in _cache:
        return _cache['mods']
    R = modroute.Routes()
    out = []
    for label, build, kw in route_grammars(R):
        for name in kw.get('names', (None, 'gmod')):
            body = build()
            e = R.emit(f'{label}[ctx={int(name is not None)}]', body, name=name)
            if isinstance(e, modroute.Emitted):
                e.body = body
                e.route = label
            out.append(e if isinstance(e, modroute.Emitted) else (f'{label}[ctx={int(name is not None)}]', e))
    for label, pnodes, pbuild, cbuild in sub_routes(R):
        pbody, cbody = pbuild(), cbuild()
        pe = R.emit(f'{label}:parent', pbody, name='pmod')
        ce = R.emit(f'{label}:child', cbody, name='cmod', extends=R.parent('pmod', pnodes))
        for e_, b_ in ((pe, pbody), (ce, cbody)):
            if isinstance(e_, modroute.Emitted):
                e_.body = b_
                e_.route = label
        for e, l in ((pe, f'{label}:parent'), (ce, f'{label}:child')):
            out.append(e if isinstance(e, modroute.Emitted) else (l, e))
        if isinstance(ce, modroute.Emitted) and isinstance(pe, modroute.Emitted):
            ce.parent = pe
        if isinstance(ce, modroute.Emitted):
            ce.ancestor_nodes = [pnodes]
            ce.own_nodes = cnodes if False else None
        # three-level chain: the child's statements as the grandchild sees them (parser nodes)
        cnodes = []
        for o in cbuild():
            nm = o.d.get('name')
            if o.cls.name == 'Class':
                cnodes.append(modroute.node('ClassDef', name=nm, params=o.d.get('params'), members=[]))
            elif nm is None and o.d.get('is_ignored'):
                cnodes.append(modroute.node('IgnoreStmt', expr=None))
            else:
                cnodes.append(modroute.node('RuleDef', is_override=False, is_ignored=bool(o.d.get('is_ignored')),
                                            name=nm, params=o.d.get('params'), expr=None))
        ge = R.emit(f'{label}:grandchild', [R.Rule('N2', R.Choice(R.Super('N'), R.Super('X'), R.Ref('Y')))],
                    name='gcmod', extends=R.parent('cmod', cnodes, extends=R.parent('pmod', pnodes)))
        if isinstance(ge, modroute.Emitted):
            ge.parent = ce if isinstance(ce, modroute.Emitted) else None
            ge.ancestor_nodes = [cnodes, pnodes]
            out.append(ge)
        else:
            out.append((f'{label}:grandchild', ge))
    # the checked-in generated parser of the metagrammar is an emitted module like any other
    # (plain convention); the module-level rules apply to it as it stands in the tree
    try:
        sp = modroute.Emitted('shipped-parser[ctx=0]', load.read("sourcer/parser.py"), False, False, None)
        sp.body, sp.route = None, 'shipped-parser'
        out.append(sp)
    except FileNotFoundError:
        raise AnalysisError('anchor sourcer/parser.py vanished')
    _cache['mods'] = (R, out)
    return _cache['mods']


RUNTIME_NAMES = None


def runtime_subjects():
    """The runtime as it is actually emitted: for every route module the part that comes from
    the templates (functions/classes whose names the templates define), de-duplicated by text;
    plus the copy embedded in the shipped parser.  -> list of (what, tree, rel)"""
    if 'rt_subjects' in _cache:
        return _cache['rt_subjects']
    names = set()
    for ctx in (False, True):
        try:
            tree, _ = load.runtime_ast(ctx)
            names |= {n.name for n in tree.body if isinstance(n, (ast.FunctionDef, ast.ClassDef))}
        except AnalysisError:
            pass
    R, mods = emitted_modules()
    out, seen = [], set()
    for m in mods:
        if not isinstance(m, modroute.Emitted) or m.sub:
            continue
        if not names:
            names = {n.name for n in m.tree.body if isinstance(n, (ast.FunctionDef, ast.ClassDef))
                     and not n.name.startswith(emitted_prefixes())}
        sig = '\n'.join(ast.unparse(n) for n in m.tree.body
                        if isinstance(n, (ast.FunctionDef, ast.ClassDef)) and n.name in names)
        if sig in seen:
            continue
        seen.add(sig)
        out.append((f'runtime emitted for route {m.label}', m.tree, 'sourcer/translator.py'))
    if not out:
        for ctx in (False, True):
            tree, _ = load.runtime_ast(ctx)
            out.append((f'translator.py:_main_template[ctx={int(ctx)}]', tree, 'sourcer/translator.py'))
    out.append(('sourcer/parser.py (generated)', load.parse('sourcer/parser.py'), 'sourcer/parser.py'))
    _cache['rt_subjects'] = _Subjects(out)
    return _cache['rt_subjects']


class _Subjects(list):
    """iterating the runtime subjects announces each module to the path engine (helper inlining)"""

    def __iter__(self):
        for item in list.__iter__(self):
            P.set_module(item[1])
            yield item
        P.set_module(None)


# --------------------------------------------------------------------------- helpers
def runtime_defs(uses_context):
    """name -> FunctionDef/ClassDef of the runtime for this convention, as actually emitted
    (taken from the `plain` route module; falls back to instantiating the template)"""
    key = ('rtdefs', uses_context)
    if key in _cache:
        return _cache[key]
    tree = None
    if 'mods' in _cache:
        for m in _cache['mods'][1]:
            if isinstance(m, modroute.Emitted) and not m.sub and m.uses_context == uses_context \
                    and getattr(m, 'route', '') == 'plain':
                tree = m.tree
    if tree is None:
        tree, src = load.runtime_ast(uses_context)
    out = {}
    for n in tree.body:
        if isinstance(n, (ast.FunctionDef, ast.ClassDef)):
            out[n.name] = n
        elif isinstance(n, ast.Assign):
            for t in n.targets:
                if isinstance(t, ast.Name):
                    out[t.id] = n
        elif isinstance(n, (ast.Import, ast.ImportFrom)):
            for a in n.names:
                out[(a.asname or a.name).split('.')[0]] = n
    if 'mods' in _cache:
        # template names only: what every stand-alone module of this convention defines
        common = None
        for m in _cache['mods'][1]:
            if isinstance(m, modroute.Emitted) and not m.sub and m.uses_context == uses_context:
                names = set(module_level_names(m.tree))
                common = names if common is None else common & names
        if common:
            out = {k: v for k, v in out.items() if k in common}
        _cache[key] = out
    return out


def module_level_names(tree):
    out = {}
    for n in tree.body:
        if isinstance(n, (ast.FunctionDef, ast.ClassDef)):
            out[n.name] = n
        elif isinstance(n, ast.Assign):
            for t in n.targets:
                if isinstance(t, ast.Name):
                    out[t.id] = n
        elif isinstance(n, (ast.Import, ast.ImportFrom)):
            for a in n.names:
                out[(a.asname or a.name).split('.')[0]] = n
    return out


def prefix_params(uses_context):
    return (['_ctx'] if uses_context else []) + ['_text', '_pos']


def positional_params(fn):
    a = fn.args
    return [x.arg for x in a.posonlyargs + a.args]


def required_count(fn):
    return len(positional_params(fn)) - len(fn.args.defaults)


def functions_top(tree):
    return {n.name: n for n in tree.body if isinstance(n, ast.FunctionDef)}


def is_generator(fn):
    for n in ast.walk(fn):
        if isinstance(n, (ast.Yield, ast.YieldFrom)):
            # not inside a nested def
            return True
    return False


def requests_in(fn):
    """yield (TAG, callee, pos) requests in a function -> list of (callee node, pos node, yield node)"""
    out = []
    for n in ast.walk(fn):
        if isinstance(n, ast.Yield) and isinstance(n.value, ast.Tuple) and len(n.value.elts) == 3 \
                and isinstance(n.value.elts[0], ast.Constant):
            out.append((n.value.elts[1], n.value.elts[2], n))
    out.sort(key=lambda t: (t[2].lineno, t[2].col_offset))
    return out


def strip_ctx(node):
    """_ctx.NAME / NAME -> (NAME, via) ; _super_ctx.NAME -> (NAME, 'super') ; else None"""
    if isinstance(node, ast.Name):
        return node.id, 'bare'
    if isinstance(node, ast.Attribute) and isinstance(node.value, ast.Name):
        if node.value.id == '_ctx':
            return node.attr, 'ctx'
        if node.value.id == '_super_ctx':
            return node.attr, 'super'
    if isinstance(node, ast.Attribute) and isinstance(node.value, ast.Attribute) \
            and isinstance(node.value.value, ast.Name) and node.value.value.id == '_ctx' \
            and node.value.attr == '_super_ctx':
        return node.attr, 'ctx.super'
    return None


def local_assignments(fn):
    """name -> list of value nodes assigned to it inside fn (simple Name targets)"""
    out = {}
    for n in ast.walk(fn):
        if isinstance(n, ast.Assign):
            for t in n.targets:
                if isinstance(t, ast.Name):
                    out.setdefault(t.id, []).append(n.value)
    return out


# --------------------------------------------------------------------------- conformance
def conformance(mod, bad, stats):
    """every callee receives exactly the arguments its definition takes, in this convention"""
    ctx = mod.uses_context
    pre = prefix_params(ctx)
    npre = len(pre)
    funcs = functions_top(mod.tree)
    rt = runtime_defs(ctx)
    where = mod.label

    def resolve(node):
        """callee expression -> FunctionDef in this module (or None if external/unknown)"""
        s = strip_ctx(node)
        if s is None:
            return None, None
        name, via = s
        if via in ('super', 'ctx.super'):
            return None, name
        return funcs.get(name), name

    def check_callee_takes(fn, name, extra_pos, kw_names, site):
        params = positional_params(fn)
        stats['callsites'] += 1
        if params[:npre] != pre:
            bad('CONV-prefix', f'{where}: {name} is defined with parameters {params}; under '
                               f'{"the context" if ctx else "the plain"} convention every parse function '
                               f'starts with {pre} ({site})')
            return
        rest = params[npre:]
        need = required_count(fn) - npre
        if fn.args.vararg is None and extra_pos > len(rest):
            bad('CONV-arity', f'{where}: {name}{tuple(params)} receives {extra_pos} extra positional '
                              f'argument(s) {site}')
        elif extra_pos + len([k for k in kw_names if k in rest[extra_pos:]]) < need:
            bad('CONV-arity', f'{where}: {name}{tuple(params)} is invoked with only {extra_pos} extra positional '
                              f'and keywords {list(kw_names)} but requires {need} beyond {pre} ({site})')
        for k in kw_names:
            if k not in rest and fn.args.kwarg is None:
                bad('CONV-arity', f'{where}: {name}{tuple(params)} receives unknown keyword {k!r} ({site})')
            elif k in rest[:extra_pos]:
                bad('CONV-arity', f'{where}: {name} receives {k!r} both positionally and by keyword ({site})')

    def check_value_as_parser(vnode, fn_env, site, depth=0):
        """a value that will later be *requested* (so the driver calls it with the prefix only)"""
        if isinstance(vnode, ast.Name) and vnode.id in ('_result', '_status', '_pos'):
            return      # a value parsed earlier (let-bound / field): supplied at run time
        if isinstance(vnode, ast.Name) and vnode.id in fn_env and depth < 4:
            for v in fn_env[vnode.id]:
                check_value_as_parser(v, fn_env, site, depth + 1)
            return
        if isinstance(vnode, ast.Call) and isinstance(vnode.func, ast.Name):
            f = vnode.func.id
            if f == '_ParseFunction':
                check_parse_function(vnode, fn_env, site)
                return
            if f in ('_wrap_string_literal', '_wrap_byte_literal') and len(vnode.args) == 2:
                check_value_as_parser(vnode.args[1], fn_env, site + f' via {f}', depth + 1)
                return
        fn, name = resolve(vnode)
        if fn is not None:
            check_callee_takes(fn, name, 0, [], site)

    def check_parse_function(call, fn_env, site):
        if len(call.args) != 3:
            bad('CONV-arity', f'{where}: _ParseFunction built with {len(call.args)} fields ({site})')
            return
        f, args, kwargs = call.args
        for fld, label in ((args, 'args'), (kwargs, 'kwargs')):
            if isinstance(fld, (ast.Dict, ast.List, ast.Set)):
                bad('CONV-hashable', f'{where}: _ParseFunction.{label} is a {type(fld).__name__.lower()} display '
                                     f'({ast.unparse(fld)}): the value is part of the memo key and must be '
                                     f'hashable ({site})')
        extra = len(args.elts) if isinstance(args, ast.Tuple) else None
        kws = []
        if isinstance(kwargs, ast.Tuple):
            for e in kwargs.elts:
                if isinstance(e, ast.Tuple) and len(e.elts) == 2 and isinstance(e.elts[0], ast.Constant):
                    kws.append(e.elts[0].value)
        fn, name = resolve(f)
        if fn is not None and extra is not None:
            check_callee_takes(fn, name, extra, kws, site + ' through _ParseFunction')
        # parser-valued arguments are themselves requested later with the prefix only
        if isinstance(args, ast.Tuple):
            for a in args.elts:
                if isinstance(a, ast.Name) and (a.id in fn_env or a.id in funcs):
                    vals = fn_env.get(a.id, [a])
                    for v in vals:
                        if isinstance(v, ast.Call) or (isinstance(v, ast.Name) and v.id in funcs):
                            check_value_as_parser(v, fn_env, site + f' (argument {a.id})')
        if isinstance(kwargs, ast.Tuple):
            for e in kwargs.elts:
                if isinstance(e, ast.Tuple) and len(e.elts) == 2:
                    a = e.elts[1]
                    if isinstance(a, ast.Name) and (a.id in fn_env or a.id in funcs):
                        for v in fn_env.get(a.id, [a]):
                            check_value_as_parser(v, fn_env, site + f' (keyword argument)')

    for fname, fn in funcs.items():
        env = local_assignments(fn)
        params = set(positional_params(fn))
        for callee, pos, y in requests_in(fn):
            site = f'request in {fname} (line {y.lineno})'
            if isinstance(callee, ast.Name) and callee.id in env:
                for v in env[callee.id]:
                    check_value_as_parser(v, env, site)
            elif isinstance(callee, ast.Name) and callee.id in params:
                stats['callsites'] += 1      # parameter: supplied by a caller, checked at the call site
            else:
                fn2, name = resolve(callee)
                if fn2 is not None:
                    check_callee_takes(fn2, name, 0, [], site)
                elif strip_ctx(callee) is None:
                    raise AnalysisError(f'{where}: request with callee {ast.unparse(callee)} in {fname} '
                                        f'is of no known form')
        # direct invocations of emitted helper functions (spill path)
        delegated = {id(n.value) for n in ast.walk(fn) if isinstance(n, ast.YieldFrom)}
        for n in ast.walk(fn):
            if isinstance(n, ast.Call) and isinstance(n.func, ast.Name) and n.func.id in funcs \
                    and n.func.id.startswith(helper_prefix()):
                h = funcs[n.func.id]
                stats['callsites'] += 1
                stats['spills'] = stats.get('spills', 0) + 1
                hp = positional_params(h)
                if len(n.args) != len(hp) or any(isinstance(a, ast.Name) and a.id != p
                                                  for a, p in zip(n.args, hp)):
                    bad('CONV-arity', f'{where}: helper {h.name}{tuple(hp)} is called with '
                                      f'({", ".join(ast.unparse(a) for a in n.args)}) in {fname}')
                tail = h.body[-1] if h.body else None
                if id(n) in delegated:
                    if not is_generator(h):
                        bad('SPILL-kind', f'{where}: {fname} delegates to helper {h.name} with `yield from`, but '
                                          f'the helper is a plain function: its result tuple would be iterated')
                    if not (isinstance(tail, ast.Return) and ast.unparse(tail.value) == '(_status, _result, _pos)'):
                        bad('SPILL-kind', f'{where}: helper {h.name} is delegated to but does not return the '
                                          f'register triple')
                else:
                    if is_generator(h):
                        bad('SPILL-kind', f'{where}: {fname} calls helper {h.name} like a plain function and '
                                          f'unpacks its result, but the helper body suspends (it contains a '
                                          f'request): the call returns a generator object')
                # the helper must be transparent: the caller assigns its triple to the registers
                par = [x for x in ast.walk(fn) if isinstance(x, ast.Assign) and (
                    x.value is n or (isinstance(x.value, ast.YieldFrom) and x.value.value is n))]
                if not par or ast.unparse(par[0].targets[0]) != '(_status, _result, _pos)':
                    bad('SPILL-kind', f'{where}: the result of helper {h.name} is not assigned to '
                                      f'(_status, _result, _pos) in {fname}')
    # entry points
    for fname, fn in funcs.items():
        if fname.startswith('_parse_') and not fname.startswith(helper_prefix()):
            check_entry(fn, fname, mod, bad, funcs, stats)
    for cname, cls in mod.classes.items():
        for m in cls.body:
            if isinstance(m, ast.FunctionDef) and m.name == 'parse':
                check_entry(m, f'{cname}.parse', mod, bad, funcs, stats, cls=cls)


ENTRY_PARAMS = ['text', 'pos', 'fullparse']


def check_entry(fn, qual, mod, bad, funcs, stats, cls=None):
    ctx = mod.uses_context
    where = mod.label
    stats['entries'] += 1
    rt = runtime_defs(ctx)
    run = rt.get('_run')
    if not isinstance(run, ast.FunctionDef):
        raise AnalysisError('anchor _run vanished from the runtime template')
    run_params = positional_params(run)

    def check_sig(args, what):
        names = [a.arg for a in args.args]
        defaults = [ast.unparse(d) for d in args.defaults]
        if names != ENTRY_PARAMS or defaults != ['0', 'True']:
            bad('ENTRY-signature', f'{where}: {what} has parameters ({ast.unparse(args)}); every public entry '
                                   f'point takes (text, pos=0, fullparse=True) in both conventions')

    def check_run_call(call, what, impl_ok):
        if not (isinstance(call, ast.Call) and isinstance(call.func, ast.Name) and call.func.id == '_run'):
            bad('ENTRY-driver', f'{where}: {what} does not tail-call the driver (_run)')
            return
        got = [ast.unparse(a) for a in call.args]
        want_prefix = (['_ctx'] if ctx else []) + ['text', 'pos']
        if len(got) != len(run_params) or got[:len(want_prefix)] != want_prefix or got[-1] != 'fullparse':
            bad('ENTRY-driver', f'{where}: {what} calls _run({", ".join(got)}); the driver is '
                                f'_run({", ".join(run_params)})')
            return
        impl_ok(call.args[len(want_prefix)])

    rets = [n for n in fn.body if isinstance(n, ast.Return)]
    deco = [ast.unparse(d) for d in fn.decorator_list]
    if cls is not None and 'staticmethod' not in deco:
        # emitted as `@staticmethod` line followed by def: outsourcer writes it as a statement
        pass
    names = [a.arg for a in fn.args.args]
    if cls is not None and names and names != ENTRY_PARAMS:
        # parameterised class: parse(*params) returns the entry closure
        lam = rets[0].value if rets else None
        if not isinstance(lam, ast.Lambda):
            bad('ENTRY-signature', f'{where}: {qual}({", ".join(names)}) does not return an entry closure')
            return
        check_sig(lam.args, f'the closure returned by {qual}')
        env = local_assignments(fn)

        def impl_ok(node):
            vals = env.get(node.id, []) if isinstance(node, ast.Name) else [node]
            for v in vals:
                if isinstance(v, ast.Call) and isinstance(v.func, ast.Name) and v.func.id == '_ParseFunction':
                    f, args, kwargs = v.args
                    for fld, label in ((args, 'args'), (kwargs, 'kwargs')):
                        if isinstance(fld, (ast.Dict, ast.List, ast.Set)):
                            bad('CONV-hashable', f'{where}: {qual} builds _ParseFunction with {label}='
                                                 f'{ast.unparse(fld)}: the entry closure is the memo key of the '
                                                 f'start request and must be hashable')
                    tgt = strip_ctx(f)
                    fn2 = funcs.get(tgt[0]) if tgt else None
                    if fn2 is not None and isinstance(args, ast.Tuple):
                        need = required_count(fn2) - len(prefix_params(ctx))
                        if len(args.elts) != need:
                            bad('CONV-arity', f'{where}: {qual} passes {len(args.elts)} arguments to '
                                              f'{fn2.name}{tuple(positional_params(fn2))}')
        check_run_call(lam.body, f'the closure returned by {qual}', impl_ok)
        return
    check_sig(fn.args, qual)
    if len(rets) != 1:
        bad('ENTRY-driver', f'{where}: {qual} does not consist of one return')
        return

    def impl_ok(node):
        tgt = strip_ctx(node)
        if tgt is None:
            bad('ENTRY-driver', f'{where}: {qual} starts {ast.unparse(node)}')
            return
        name, via = tgt
        fn2 = funcs.get(name)
        if fn2 is None:
            bad('ENTRY-driver', f'{where}: {qual} starts {name}, which this module does not define')
            return
        if ctx and via != 'ctx' and cls is not None:
            pass
        need = required_count(fn2) - len(prefix_params(ctx))
        if need > 0:
            bad('ENTRY-params@rule', f'{where}: {qual} starts {name}{tuple(positional_params(fn2))} without its '
                                f'{need} parameter(s): the entry point of a parameterised rule cannot work')
    check_run_call(rets[0].value, qual, impl_ok)


def local_shadowing(mod, bad, stats):
    """C05/C06: a name bound by a parameter, a `let` or an earlier class field denotes the local value
    in every later reference of the same body - never the grammar rule of the same name."""
    pre = set(prefix_params(mod.uses_context))
    for fname, fn in functions_top(mod.tree).items():
        if not fname.startswith(('_try_', helper_prefix())):
            continue
        bound = set(positional_params(fn)) - pre
        for n in ast.walk(fn):
            if isinstance(n, ast.Assign) and isinstance(n.value, ast.Name) and n.value.id == '_result':
                for t in n.targets:
                    if isinstance(t, ast.Name) and not t.id.startswith(('item', 'arg', 'func', 'staging')):
                        bound.add(t.id)
        if not bound:
            continue
        stats['bound_names'] = stats.get('bound_names', 0) + len(bound)
        for callee, pos, y in requests_in(fn):
            s2 = strip_ctx(callee)
            if s2 and s2[0].startswith('_try_') and s2[0][5:] in bound and s2[1] in ('bare', 'ctx'):
                bad('LOCAL-shadow', f'{mod.label}: in {fname} the name {s2[0][5:]} is bound locally (parameter, let '
                                    f'or field) but the reference to it is emitted as the grammar rule '
                                    f'{ast.unparse(callee)}: the argument / bound value is ignored')
        # the same across a split: a helper function this one delegates to (yield from helper(...)) may
        # refer to a rule named like one of the bound names only if it was handed that name itself
        tops = functions_top(mod.tree)
        seen_h, work = set(), [fn]
        while work:
            cur = work.pop()
            for n in ast.walk(cur):
                if isinstance(n, ast.YieldFrom) and isinstance(n.value, ast.Call) and isinstance(n.value.func, ast.Name) \
                        and n.value.func.id.startswith(helper_prefix()) and n.value.func.id in tops \
                        and n.value.func.id not in seen_h:
                    seen_h.add(n.value.func.id)
                    h = tops[n.value.func.id]
                    work.append(h)
                    hparams = set(positional_params(h))
                    for callee, pos, y in requests_in(h):
                        s2 = strip_ctx(callee)
                        if s2 and s2[0].startswith('_try_') and s2[0][5:] in bound and s2[0][5:] not in hparams \
                                and s2[1] in ('bare', 'ctx'):
                            bad('LOCAL-shadow', f'{mod.label}: {fname} binds the name {s2[0][5:]} and delegates to '
                                                f'{h.name}, which is not handed that name and requests the grammar rule '
                                                f'{ast.unparse(callee)} instead: inside the split-off part the bound '
                                                f'value is ignored')
        # arguments built from a local name must pass the local, not the rule
        for n in ast.walk(fn):
            if isinstance(n, ast.Call) and isinstance(n.func, ast.Name) and n.func.id == '_ParseFunction' \
                    and len(n.args) == 3 and isinstance(n.args[1], ast.Tuple):
                for a in list(n.args[1].elts) + [n.args[0]]:
                    s2 = strip_ctx(a)
                    if s2 and s2[0].startswith('_try_') and s2[0][5:] in bound:
                        bad('LOCAL-shadow', f'{mod.label}: in {fname} the locally bound name {s2[0][5:]} is passed '
                                            f'on as the grammar rule {ast.unparse(a)}')


def let_scope(mod, bad, stats):
    """`let x = a in [(let x = b in `x`), `x`]`: the last read of x belongs to the outer binding.  In the
    emitted rule function both bindings are plain stores into one Python local; the read is reached
    by whichever store ran last."""
    if getattr(mod, 'route', '') != 'shadow':
        return
    fn = functions_top(mod.tree).get(impl('L3'))
    if fn is None:
        raise AnalysisError(f'{mod.label}: route rule L3 missing')
    occ = sorted(((n.lineno, n.col_offset, isinstance(n.ctx, ast.Store)) for n in ast.walk(fn)
                  if isinstance(n, ast.Name) and n.id == 'x'))
    stores = [o for o in occ if o[2]]
    loads = [o for o in occ if not o[2]]
    stats['let_scope'] = stats.get('let_scope', 0) + 1
    if len(stores) < 2 or len(loads) < 2:
        raise AnalysisError(f'{mod.label}: {fn.name}: expected two bindings and two reads of x, found '
                            f'{len(stores)}/{len(loads)}')
    last_read = loads[-1]
    before = [s for s in stores if s[:2] < last_read[:2]]
    if before and before[-1] != stores[0]:
        bad('LOCAL-let-scope@L3', f'{mod.label}: in {fn.name} the read of `x` after the inner `let x` has ended is '
                                  f'reached by the inner binding (both are stores into the same Python local, '
                                  f'line {before[-1][0]} overwrites line {stores[0][0]}): the outer value is lost')


# --------------------------------------------------------------------------- wiring / free names
def context_wiring(mod, bad, stats):
    if not mod.uses_context:
        # plain convention: no context object may be mentioned at all
        for n in ast.walk(mod.tree):
            if isinstance(n, ast.Name) and n.id in ('_ctx', '_super_ctx'):
                bad('WIRE-plain', f'{mod.label}: plain-convention module mentions {n.id} (line {n.lineno})')
                break
        return
    assigned = {}
    for n in mod.tree.body:
        if isinstance(n, ast.Assign):
            for t in n.targets:
                if isinstance(t, ast.Attribute) and isinstance(t.value, ast.Name) and t.value.id == '_ctx':
                    assigned[t.attr] = n.value
    reads = {}
    sreads = {}
    for fname, fn in load.functions_of(mod.tree).items():
        for n in ast.walk(fn):
            if isinstance(n, ast.Attribute) and isinstance(n.ctx, ast.Load) and isinstance(n.value, ast.Name):
                if n.value.id == '_ctx':
                    reads.setdefault(n.attr, fname)
                elif n.value.id == '_super_ctx':
                    sreads.setdefault(n.attr, fname)
    # the context is dynamic: rule functions and their helper functions receive it as a parameter;
    # one that reads the module global `_ctx` instead is bound to the grammar that defined it, so
    # through a sub-grammar it calls the base definitions (overrides and the sub-grammar's ignore
    # rule are bypassed)
    for n in mod.tree.body:
        if isinstance(n, ast.FunctionDef) and n.name.startswith(('_try_', helper_prefix())):
            stats['ctx_param_functions'] = stats.get('ctx_param_functions', 0) + 1
            params = {a.arg for a in n.args.posonlyargs + n.args.args + n.args.kwonlyargs}
            if '_ctx' not in params and any(isinstance(x, ast.Name) and x.id == '_ctx' for x in ast.walk(n)):
                bad('WIRE-ctx-param', f'{mod.label}: {n.name}({", ".join(sorted(params))}) reads the module global '
                                      f'_ctx instead of receiving the context: when the code runs through a '
                                      f'sub-grammar it calls the base grammar\'s rules, not the overrides')
    # a rule function runs for whichever grammar of the family is parsing: what it computes from the context it
    # was handed must not be kept in a module-level name (a `global` store), or the first grammar to use the
    # rule decides what all the others get
    for n in mod.tree.body:
        if isinstance(n, ast.FunctionDef) and n.name.startswith(('_try_', helper_prefix())):
            for g in ast.walk(n):
                if isinstance(g, ast.Global):
                    stored = {x.id for x in ast.walk(n) if isinstance(x, ast.Name) and isinstance(x.ctx, ast.Store)} & set(g.names)
                    for nm in sorted(stored):
                        bad('WIRE-global-store', f'{mod.label}: {n.name} assigns the module-level name `{nm}`: a value built '
                                                 f'from the context of one parse (e.g. a call object holding _ctx._try_X) is '
                                                 f'reused by parses through other grammars of the family - overrides are '
                                                 f'ignored or the base changes, depending on who parsed first')
    # `super.R` is lexical: it must be rooted at the module-global _super_ctx, never at the
    # dynamic context (which is the most derived grammar's)
    for fname, fn in load.functions_of(mod.tree).items():
        for n in ast.walk(fn):
            if isinstance(n, ast.Attribute) and isinstance(n.value, ast.Attribute) \
                    and isinstance(n.value.value, ast.Name) and n.value.value.id == '_ctx' \
                    and n.value.attr == '_super_ctx':
                bad('SUPER-lexical', f'{mod.label}: {fname} reaches the parent through the dynamic context '
                                     f'(`{ast.unparse(n)}`): in a chain C extends B extends A, B\'s `super.R` '
                                     f'then denotes B\'s own definition (unbounded recursion) instead of A\'s')
                sreads.setdefault(n.attr, fname)
    # only an explicit `super.R` is bound to the lexical parent; a plain reference to a rule the grammar
    # inherits (and does not define itself) is late-bound like any other - a grammar further down the chain
    # may override it
    body = getattr(mod, 'body', None)
    if body is not None and mod.sub:
        explicit = set()
        for o in walk_objs(body):
            if o.cls.name == 'Ref' and isinstance(o.d.get('name'), str) and o.d['name'].startswith('super.'):
                explicit.add(impl(o.d['name'][len('super.'):]))
        for fname, fn in load.functions_of(mod.tree).items():
            if not fname.startswith(('_try_', helper_prefix())):
                continue
            for n in ast.walk(fn):
                if isinstance(n, ast.Attribute) and isinstance(n.ctx, ast.Load) and isinstance(n.value, ast.Name) \
                        and n.value.id == '_super_ctx':
                    stats['super_reads'] = stats.get('super_reads', 0) + 1
                    if n.attr not in explicit and not n.attr.endswith('_ignored'):
                        bad('SUPER-explicit-only', f'{mod.label}: {fname} reads `_super_ctx.{n.attr}` although the '
                                                   f'grammar does not write `super.{n.attr}`: a plain reference to an '
                                                   f'inherited rule is bound to the lexical parent, so an override in a '
                                                   f'grammar further down the chain is not seen')
    # inherited code runs with the most derived context: everything an ancestor's functions read
    # through _ctx must be assigned on this module's context too
    anc = getattr(mod, 'parent', None)
    while anc is not None:
        for fname, fn in load.functions_of(anc.tree).items():
            for n in ast.walk(fn):
                if isinstance(n, ast.Attribute) and isinstance(n.ctx, ast.Load) and isinstance(n.value, ast.Name) \
                        and n.value.id == '_ctx' and n.attr not in assigned and n.attr != '_super_ctx':
                    bad('WIRE-inherited@' + re.sub(r'_anonymous_\d+', '_anonymous_N', n.attr), f'{mod.label}: inherited function {fname} of {anc.label} reads '
                                          f'_ctx.{n.attr}, which this sub-grammar does not put on its context: '
                                          f'AttributeError when the inherited rule runs through the sub-grammar')
        anc = getattr(anc, 'parent', None)
    stats['ctx_reads'] += len(reads) + len(sreads)
    for a, fname in reads.items():
        if a not in assigned and a != '_super_ctx':
            bad('WIRE-ctx', f'{mod.label}: {fname} reads _ctx.{a}, which the module never assigns '
                            f'(assigned: {sorted(assigned)[:12]})')
    parent = getattr(mod, 'parent', None)
    if sreads:
        if parent is None:
            if not mod.sub:
                bad('WIRE-super', f'{mod.label}: reads _super_ctx.* but is not a sub-grammar')
        else:
            passigned = set()
            for n in parent.tree.body:
                if isinstance(n, ast.Assign):
                    for t in n.targets:
                        if isinstance(t, ast.Attribute) and isinstance(t.value, ast.Name) and t.value.id == '_ctx':
                            passigned.add(t.attr)
            for a, fname in sreads.items():
                if a not in passigned:
                    bad('WIRE-super@' + a, f'{mod.label}: {fname} reads _super_ctx.{a}, which the parent module never '
                                      f'assigns on its context (it assigns {sorted(passigned)})')
    # wiring statements themselves: the value must exist
    names = module_level_names(mod.tree)
    for a, v in assigned.items():
        if isinstance(v, ast.Name) and v.id not in names and v.id not in runtime_defs(True):
            bad('WIRE-ctx', f'{mod.label}: `_ctx.{a} = {v.id}` names something the module does not define')
        if isinstance(v, ast.Attribute) and isinstance(v.value, ast.Name) and v.value.id == '_super_ctx' \
                and parent is not None:
            passigned = {t.attr for n in parent.tree.body if isinstance(n, ast.Assign) for t in n.targets
                         if isinstance(t, ast.Attribute) and isinstance(t.value, ast.Name) and t.value.id == '_ctx'}
            if v.attr not in passigned:
                bad('WIRE-super', f'{mod.label}: `_ctx.{a} = _super_ctx.{v.attr}`: the parent context has no '
                                  f'{v.attr} (it has {sorted(passigned)})')
    # what the sub-grammar defines itself is not re-imported from an ancestor: the import (placed after
    # the definitions) would rebind the overriding rule / class to the ancestor's object
    if mod.sub:
        own = set()
        for n in mod.tree.body:
            if isinstance(n, (ast.FunctionDef, ast.ClassDef)):
                own.add(n.name)
            elif isinstance(n, ast.Assign):
                own |= {t.id for t in n.targets if isinstance(t, ast.Name)}
        for n in mod.tree.body:
            if isinstance(n, ast.ImportFrom):
                for a in n.names:
                    nm = a.asname or a.name
                    if nm in own and nm not in runtime_defs(True) and nm != '_super_ctx':
                        bad('WIRE-import-shadow', f'{mod.label}: `{nm}` is defined by this sub-grammar and also imported '
                                                  f'from {n.module}: in the module namespace the ancestor\'s object '
                                                  f'replaces the overriding one ({nm}.parse and the class built by '
                                                  f'_try_{nm} are the ancestor\'s)')
    # no store through the parent's context, nor through any object imported from an ancestor
    # (inherited rules and classes are the ancestor's own objects, shared by reference)
    imported = set()
    for n in mod.tree.body:
        if isinstance(n, ast.ImportFrom):
            imported |= {a.asname or a.name for a in n.names}
    for n in ast.walk(mod.tree):
        if isinstance(n, (ast.Attribute, ast.Subscript)) and isinstance(n.ctx, (ast.Store, ast.Del)):
            r = n
            while isinstance(r, (ast.Attribute, ast.Subscript)):
                r = r.value
            if isinstance(r, ast.Name) and r.id == '_super_ctx':
                bad('WIRE-parent-readonly', f'{mod.label}: stores through the parent context ({ast.unparse(n)})')
            elif isinstance(r, ast.Name) and r.id in imported and mod.sub:
                bad('WIRE-parent-readonly', f'{mod.label}: stores into `{r.id}`, an object imported from the base '
                                            f'grammar ({ast.unparse(n)}): compiling or using the sub-grammar changes '
                                            f'the behaviour of the base module')
        if isinstance(n, ast.Call) and isinstance(n.func, ast.Name) and n.func.id in ('setattr', 'delattr') \
                and n.args and isinstance(n.args[0], ast.Name) and n.args[0].id in imported | {'_super_ctx'} and mod.sub:
            bad('WIRE-parent-readonly', f'{mod.label}: {ast.unparse(n)[:60]} modifies an object of the base grammar')


def user_python_names(mod):
    """names read by the inline Python the route grammar itself contains (expressions and symbolic
    repetition bounds): they are the grammar author's, not the generator's"""
    out = set()
    for o in walk_objs(getattr(mod, 'body', None) or []):
        texts = []
        if o.cls.name == 'PythonExpression':
            texts.append(o.d.get('source_code'))
        elif o.cls.name == 'List':
            texts += [o.d.get('min_len'), o.d.get('max_len')]
        for t in texts:
            if isinstance(t, str):
                try:
                    out |= {n.id for n in ast.walk(ast.parse(t, mode='eval')) if isinstance(n, ast.Name)}
                except SyntaxError:
                    pass
    return out


def free_names(mod, bad, stats):
    """every global name the emitted module loads is defined by it, by the runtime, or is a builtin"""
    import symtable
    ctx = mod.uses_context
    defined = set(module_level_names(mod.tree)) | user_python_names(mod)
    if mod.sub:
        # the prologue imports the runtime from the parent
        for n in mod.tree.body:
            if isinstance(n, ast.ImportFrom):
                for a in n.names:
                    defined.add(a.asname or a.name)
    st = symtable.symtable(mod.src, '<emitted>', 'exec')

    def walk(t):
        yield t
        for c in t.get_children():
            yield from walk(c)
    missing = {}
    for t in walk(st):
        for s in t.get_symbols():
            name = s.get_name()
            if t.get_type() == 'module':
                is_glob = s.is_referenced() and not s.is_assigned() and not s.is_imported() \
                    and not s.is_namespace() and not s.is_parameter()
            else:
                is_glob = s.is_global() and s.is_referenced()
            if is_glob and name not in defined and not hasattr(builtins, name):
                missing.setdefault(name, t.get_name())
    stats['globals'] += 1
    for name, scope in missing.items():
        bad('FREE-name', f'{mod.label}: {scope} reads the global name {name}, which neither the module, nor '
                         f'the runtime it carries/imports, nor builtins define')


# --------------------------------------------------------------------------- ignore distribution (C04)
def walk_objs(v, seen=None):
    """all interpreted objects reachable through attributes, lists and tuples"""
    if seen is None:
        seen = set()
    if isinstance(v, M.Obj):
        if id(v) in seen:
            return
        seen.add(id(v))
        yield v
        for x in v.d.values():
            yield from walk_objs(x, seen)
    elif isinstance(v, (list, tuple)):
        for x in v:
            yield from walk_objs(x, seen)


LITERALS = ('Str', 'Regex', 'Byte')


def ignore_distribution(R, bad, stats):
    """After generate_source_code has run on a grammar with ignore declarations every literal
    object (wherever it sits: ignored rules, template arguments incl. keyword arguments, class
    members) carries skip_ignored=True; without ignore declarations none does."""
    for e in emitted_modules()[1]:
        if True:
            if not isinstance(e, modroute.Emitted) or getattr(e, 'body', None) is None:
                continue
            body, label = e.body, e.label
            has_ignore = any(isinstance(r, M.Obj) and r.d.get('is_ignored') for r in body) or e.sub
            # (every base grammar of the sub-grammar routes declares ignore patterns, which a
            # sub-grammar inherits)
            lits = [o for o in walk_objs(body) if o.cls.name in LITERALS]
            stats['literals'] += len(lits)
            for o in lits:
                flag = o.d.get('skip_ignored')
                empty = o.cls.name == 'Str' and not o.d.get('value')
                if has_ignore and not flag:
                    bad('IGN-every-literal', f'{label}: literal {o} keeps skip_ignored={flag} although the grammar '
                                             f'declares ignore patterns: ignorable text after it is not skipped')
                if not has_ignore and flag:
                    bad('IGN-only-with-ignore', f'{label}: literal {o} has skip_ignored set in a grammar without '
                                                f'ignore declarations')
            for o in walk_objs(body):
                if o.cls.name not in LITERALS and 'skip_ignored' in o.d and o.d['skip_ignored']:
                    bad('IGN-only-literals', f'{label}: {o.cls.name} object carries skip_ignored')


# --------------------------------------------------------------------------- more rules
def start_prefix_and_ignored_rule(R, mods, bad, stats):
    """C04: the start rule begins by skipping ignorable text; the synthetic _ignored rule is
    Skip over exactly the ignored rules."""
    ign = impl('_ignored')
    for m in mods:
        if not isinstance(m, modroute.Emitted):
            continue
        funcs = functions_top(m.tree)
        has_ignore_rule = ign in funcs
        wired_from_parent = any(
            isinstance(n, ast.Assign) and ast.unparse(n.targets[0]) == f'_ctx.{ign}'
            and ast.unparse(n.value) == f'_super_ctx.{ign}' for n in m.tree.body)
        if not has_ignore_rule and not wired_from_parent:
            # no ignore declarations: nobody may request the ignore rule
            for fname, fn in funcs.items():
                for callee, pos, y in requests_in(fn):
                    s = strip_ctx(callee)
                    if s and s[0] == ign:
                        bad('IGN-only-with-ignore', f'{m.label}: {fname} requests {ign} in a grammar without '
                                                    f'ignore declarations')
            continue
        stats['ignore_modules'] += 1
        # start rule: the function public parse() starts
        parse = funcs.get('parse')
        if parse is None:
            raise AnalysisError(f'{m.label}: no public parse()')
        call = [n for n in ast.walk(parse) if isinstance(n, ast.Call) and isinstance(n.func, ast.Name)
                and n.func.id == '_run']
        if len(call) != 1:
            raise AnalysisError(f'{m.label}: parse() does not call the driver once')
        start_node = call[0].args[-2]
        s = strip_ctx(start_node)
        sfn = funcs.get(s[0]) if s else None
        if sfn is not None:
            reqs = requests_in(sfn)
            first = strip_ctx(reqs[0][0]) if reqs else None
            # nothing may be matched before the first request
            if not first or first[0] != ign:
                bad('IGN-start-prefix', f'{m.label}: the start rule {sfn.name} does not begin by skipping '
                                        f'ignorable text (first request: '
                                        f'{ast.unparse(reqs[0][0]) if reqs else "none"})')
            else:
                if ast.unparse(reqs[0][1]) != '_pos':
                    bad('IGN-start-prefix', f'{m.label}: leading skip of {sfn.name} starts at '
                                            f'{ast.unparse(reqs[0][1])}')
                # the leading skip must come before any literal test
                y = reqs[0][2]
                for n in ast.walk(sfn):
                    if isinstance(n, ast.Subscript) and isinstance(n.value, ast.Name) and n.value.id == '_text' \
                            and (n.lineno, n.col_offset) < (y.lineno, y.col_offset):
                        bad('IGN-start-prefix', f'{m.label}: {sfn.name} looks at the text before the leading skip')
                        break
        if has_ignore_rule:
            body_objs = None
            want = set()
            for n in m.tree.body:
                pass
            # names of the ignored rules = rules whose builder objects are flagged is_ignored
            ifn = funcs[ign]
            got = []
            for callee, pos, y in requests_in(ifn):
                s2 = strip_ctx(callee)
                got.append(ast.unparse(callee))
            m.ignored_requests = got


def literal_signature(tree, fn):
    """what a function matches literally: its string/bytes constants and the patterns of the module-level
    matchers it uses"""
    sig = set()
    mods = {}
    for n in tree.body:
        if isinstance(n, ast.Assign) and len(n.targets) == 1 and isinstance(n.targets[0], ast.Name):
            mods[n.targets[0].id] = n.value
    for n in ast.walk(fn):
        if isinstance(n, ast.Constant) and isinstance(n.value, (str, bytes)):
            sig.add(('const', n.value))
        elif isinstance(n, ast.Name) and isinstance(n.ctx, ast.Load) and n.id in mods \
                and any(isinstance(c, ast.Constant) and isinstance(c.value, (str, bytes)) for c in ast.walk(mods[n.id])):
            sig.add(('module', ast.unparse(mods[n.id])))
    return sig


def route_ignored_sets(R, bad, stats):
    """the synthetic rule refers to exactly the rules flagged is_ignored (in declaration order)"""
    for e in emitted_modules()[1]:
        if True:
            if not isinstance(e, modroute.Emitted) or getattr(e, 'body', None) is None:
                continue
            body, label = e.body, e.label
            ign_names = [r.d.get('name') for r in body if isinstance(r, M.Obj) and r.d.get('is_ignored')
                         and r.d.get('name') != '_ignored']
            funcs = functions_top(e.tree)
            if not ign_names:
                continue
            ifn = funcs.get(impl('_ignored'))
            if ifn is None:
                bad('IGN-rule', f'{label}: ignore declarations but no synthetic {impl("_ignored")} rule')
                continue
            got = []
            for callee, pos, y in requests_in(ifn):
                s2 = strip_ctx(callee)
                if s2:
                    got.append(s2[0])
            want = [impl(n) for n in ign_names]
            stats['ignored_rules'] += len(want)
            if e.sub and got[:len(want)] == want and len(got) == len(want) + 1 and got[-1].endswith('_ignored'):
                got = got[:-1]      # plus the inherited patterns (see known finding KF-combined-ignore)
            if got != want:
                # a pattern declared without a name cannot be overridden or referred to: it may be matched
                # in place (then its literals skip like any other literal: requests of the rule itself).
                # Named patterns are reached by reference, in declaration order.
                anon = [n for n in ign_names if n.startswith('_anonymous_')]
                named = [impl(n) for n in ign_names if n not in anon]
                rest = [g for g in got if g != ifn.name]
                inplace = all(literal_signature(e.tree, funcs[impl(n)]) <= literal_signature(e.tree, ifn)
                              and literal_signature(e.tree, funcs[impl(n)]) for n in anon if impl(n) in funcs) \
                    and all(impl(n) in funcs for n in anon)
                if not (anon and rest == named and inplace):
                    bad('IGN-rule', f'{label}: the synthetic ignore rule tries {got}, expected exactly the ignored '
                                    f'rules {want} (a named pattern by reference, an anonymous one by reference or '
                                    f'matched in place)')
            # the ignored rules themselves never request the ignore rule recursively through Skip
            # (their literals do, after a match: that is the documented "after every literal")


def wrapper_owners(bad, stats):
    """An argument wrapped by `_wrap_string_literal` / `_wrap_byte_literal` is a memo-key component that
    compares by its text / value alone.  That is sound only for the classes whose parse function is
    determined by that value (Str, Byte): no other class may emit the wrappers."""
    owners = {'_wrap_string_literal': ('sourcer/expressions/str.py', 'Str'),
              '_wrap_byte_literal': ('sourcer/expressions/byte.py', 'Byte')}
    for rel in load.expression_files() + ['sourcer/translator.py']:
        tree = load.parse(rel)
        for fname, fn in load.functions_of(tree).items():
            for n in ast.walk(fn):
                if isinstance(n, ast.Constant) and n.value in owners:
                    stats['wrapper_sites'] = stats.get('wrapper_sites', 0) + 1
                    orel, ocls = owners[n.value]
                    if not (rel == orel and fname.split('.')[0] == ocls):
                        bad('ARG-wrap-owner', f'{rel}:{fname} emits {n.value}: a wrapped argument compares (and is '
                                              f'memoised) by its value alone, so two different expressions with the '
                                              f'same text share one memo entry per position; only {ocls} may be '
                                              f'wrapped')


def who_may_call_ignored(bad, stats):
    """`utils.skip_ignored` is reachable (call graph over the generator sources, callees resolved by
    name) only from the `_compile` of the literal classes - directly or through helper functions
    that only they call; the name of the ignore rule is built only in skip_ignored and (anywhere
    inside) generate_source_code."""
    lit_files = {'sourcer/expressions/str.py': 'Str', 'sourcer/expressions/regex.py': 'Regex',
                 'sourcer/expressions/byte.py': 'Byte'}
    funcs = {}          # short name -> list of (rel, qualname, node)
    for rel in load.expression_files() + ['sourcer/translator.py', 'sourcer/grammar.py']:
        tree = load.parse(rel)
        for fname, fn in load.functions_of(tree).items():
            funcs.setdefault(fname.split('.')[-1], []).append((rel, fname, fn))
    def callers_of(short):
        out = []
        for lst in funcs.values():
            for rel, fname, fn in lst:
                for n in ast.walk(fn):
                    if isinstance(n, ast.Call) and ast.unparse(n.func).split('.')[-1] == short \
                            and fname.split('.')[-1] != short:
                        out.append((rel, fname))
                        break
        return out
    # roots that can reach skip_ignored
    seen, work, roots = set(), ['skip_ignored'], set()
    while work:
        s = work.pop()
        if s in seen:
            continue
        seen.add(s)
        for rel, fname in callers_of(s):
            short = fname.split('.')[-1]
            is_method_root = '.' in fname and not fname.split('.')[-2].startswith('<') and short in (
                '_compile', 'compile', 'argumentize', 'precompile', 'functionalize')
            if is_method_root or rel != 'sourcer/expressions/utils.py' and '.' not in fname and not callers_of(short):
                roots.add((rel, fname))
            else:
                work.append(short)
    stats['skip_calls'] += len(roots)
    lit_roots = 0
    for rel, fname in sorted(roots):
        if rel in lit_files and fname == f'{lit_files[rel]}._compile':
            lit_roots += 1
        else:
            bad('IGN-who-may-call', f'{rel}:{fname} can reach skip_ignored: ignored text may only be skipped by '
                                    f'the literal matchers (and before the start rule)')
    for rel in load.expression_files() + ['sourcer/translator.py', 'sourcer/grammar.py']:
        tree = load.parse(rel)
        for fname, fn in load.functions_of(tree).items():
            for n in ast.walk(fn):
                if isinstance(n, ast.Call):
                    f = ast.unparse(n.func)
                    if f.endswith('implementation_name') and n.args and isinstance(n.args[0], ast.Constant) \
                            and n.args[0].value == '_ignored':
                        stats['ignored_name_sites'] += 1
                        ok = (rel == 'sourcer/expressions/utils.py' and fname == 'skip_ignored') or (
                            rel == 'sourcer/translator.py' and fname.split('.')[0] == 'generate_source_code')
                        if not ok:
                            bad('IGN-who-may-call', f'{rel}:{fname} builds the name of the ignore rule')


def _subst(t, sub):
    if t in sub:
        return sub[t]
    if isinstance(t, tuple):
        return tuple(_subst(x, sub) for x in t)
    return t


def inline_helpers(term, funcs, depth=0):
    """see through module-level helper functions: UNPACK(helper(args), i) -> the i-th element the
    helper returns (single return path, tuple display), parameters substituted; so that moving code
    into a shared runtime helper does not change what the rule sees"""
    if depth > 3 or not isinstance(term, tuple):
        return term
    if term[:1] == ('UNPACK',) and isinstance(term[1], tuple) and term[1][:1] == ('CALL',) \
            and isinstance(term[1][1], tuple) and term[1][1][:1] == ('VAR',) and term[1][1][1] in funcs \
            and term[1][1][1] not in ('_get_line_and_column', '_extract_excerpt', '_map_index_to_line_and_column'):
        h = funcs[term[1][1][1]]
        ps = [p for p in P.Enumerator().function(h) if p.end and p.end[0] == 'return']
        params = positional_params(h)
        args = term[1][2:]
        if len(ps) == 1 and len(params) == len(args) and isinstance(ps[0].end[1], tuple) \
                and ps[0].end[1][:1] == ('TUPLE',) and isinstance(term[2], int) and term[2] + 1 < len(ps[0].end[1]):
            sub = {('PARAM', p): a for p, a in zip(params, args)}
            return inline_helpers(_subst(ps[0].end[1][1 + term[2]], sub), funcs, depth + 1)
    return tuple(inline_helpers(x, funcs, depth) if isinstance(x, tuple) else x for x in term)


def error_functions(mods, bad, stats):
    """C09 c: generated _raise_error<N>: (line, col) are None exactly under len(text) <= pos, otherwise
    come from _get_line_and_column(text, pos); every path raises ParseError(message, pos, line, col)."""
    for m in mods:
        if not isinstance(m, modroute.Emitted):
            continue
        rt = None
        for fname, fn in functions_top(m.tree).items():
            if not fname.startswith('_raise_error'):
                continue
            stats['error_functions'] += 1
            params = positional_params(fn)
            if len(params) != 2:
                bad('ERR-shape', f'{m.label}: {fname}{tuple(params)}: the driver calls error functions with (text, pos)')
                continue
            T, Pp = ('PARAM', params[0]), ('PARAM', params[1])
            paths = P.Enumerator().function(fn)
            for p in paths:
                if p.end[0] != 'raise':
                    bad('ERR-must-raise', f'{m.label}: {fname} has a path that does not raise: the driver would '
                                          f'fall through to a 2-argument ParseError')
                    continue
                exc = p.end[1]
                if not (isinstance(exc, tuple) and exc[:2] == ('CALL', ('VAR', 'ParseError')) and len(exc) == 6):
                    bad('ERR-shape', f'{m.label}: {fname} raises {P.tfmt(exc)[:100]}; expected '
                                     f'ParseError(message, pos, line, col)')
                    continue
                msg, index, line, col = exc[2:]
                allf = dict(functions_top(m.tree))
                if m.sub:
                    imported = {a.asname or a.name for n in m.tree.body if isinstance(n, ast.ImportFrom)
                                for a in n.names}
                    anc = getattr(m, 'parent', None)
                    while anc is not None:
                        for k, v in functions_top(anc.tree).items():
                            if k in imported:
                                allf.setdefault(k, v)
                        anc = getattr(anc, 'parent', None)
                line, col, index = (inline_helpers(x, allf) for x in (line, col, index))
                if index != Pp:
                    bad('ERR-position', f'{m.label}: {fname} reports index {P.tfmt(index)}, expected the failure '
                                        f'position it was called with')
                eoi = [t for t in p.tests() if t[1] in (('CMP', ('LtE',), ('CALL', ('VAR', 'len'), T), Pp),
                                                        ('CMP', ('GtE',), Pp, ('CALL', ('VAR', 'len'), T)))]
                if len(eoi) != 1:
                    bad('ERR-position', f'{m.label}: {fname}: the end-of-input case is not decided by '
                                        f'`len(text) <= pos`')
                    continue
                lc = ('CALL', ('VAR', '_get_line_and_column'), T, Pp)
                if eoi[0][2]:
                    if line != ('CONST', 'None') or col != ('CONST', 'None'):
                        bad('ERR-position', f'{m.label}: {fname}: at end of input line/column are '
                                            f'{P.tfmt(line)}/{P.tfmt(col)}, expected None/None')
                else:
                    if line != ('UNPACK', lc, 0) or col != ('UNPACK', lc, 1):
                        bad('ERR-position', f'{m.label}: {fname}: line/column are {P.tfmt(line)}/{P.tfmt(col)}, '
                                            f'expected those of _get_line_and_column(text, pos)')
                    ex = [e for e in p.events('assign') if isinstance(e[3], tuple)
                          and e[3][:2] == ('CALL', ('VAR', '_extract_excerpt'))]
                    ex = [(e[0], e[1], e[2], inline_helpers(e[3], allf)) for e in ex]
                    if ex and ex[0][3][2:] != (T, Pp, ('UNPACK', lc, 1)):
                        bad('ERR-position', f'{m.label}: {fname}: excerpt built from '
                                            f'{P.tfmt(ex[0][3])}, expected _extract_excerpt(text, pos, col)')


def class_tables(rep=None, only_rules=None, bad=None, stats=None):
    """C05 d / C14 b: generated class bodies - _fields, __init__ parameters, attribute stores, repr and
    the constructor call in the class's parse function list the same names in declaration order;
    let/pass members are parsed but not passed."""
    R, mods = emitted_modules()
    found = []
    if bad is None:
        bad = lambda rule, msg: found.append((rule, msg))
    n = 0
    for m in mods:
        if not isinstance(m, modroute.Emitted):
            continue
        funcs = functions_top(m.tree)
        for cname, cls in m.classes.items():
            if not any(isinstance(b, ast.Name) and b.id == 'ParsedObject' for b in cls.bases):
                continue
            if cname in ('Infix', 'Prefix', 'Postfix'):
                continue
            n += 1
            fields = None
            for st in cls.body:
                if isinstance(st, ast.Assign) and any(isinstance(t, ast.Name) and t.id == '_fields' for t in st.targets):
                    fields = list(ast.literal_eval(st.value))
            init = next((x for x in cls.body if isinstance(x, ast.FunctionDef) and x.name == '__init__'), None)
            rp = next((x for x in cls.body if isinstance(x, ast.FunctionDef) and x.name == '__repr__'), None)
            if fields is None or init is None or rp is None:
                bad('C14-field-tables', f'{m.label}: class {cname} lacks _fields/__init__/__repr__')
                continue
            params = [a.arg for a in init.args.args][1:]
            if params != fields:
                bad('C14-field-tables', f'{m.label}: {cname}.__init__ takes {params}, _fields is {fields}')
            stores = {}
            for node in ast.walk(init):
                if isinstance(node, ast.Assign) and isinstance(node.targets[0], ast.Attribute) \
                        and ast.unparse(node.targets[0].value) == 'self':
                    stores[node.targets[0].attr] = ast.unparse(node.value)
            for f in fields:
                if stores.get(f) != f:
                    bad('C14-field-tables', f'{m.label}: {cname}.__init__ stores {stores.get(f)!r} in self.{f}')
            if not any(isinstance(x, ast.Call) and ast.unparse(x.func) == 'ParsedObject.__init__' for x in ast.walk(init)):
                bad('C14-field-tables', f'{m.label}: {cname}.__init__ does not initialise ParsedObject')
            # repr: whatever the notation (f-string, %, .format, +), the rendered parts are
            # Name(f1=<self.f1!r>, f2=<self.f2!r>, ...) for every possible field value
            ok = False
            rps = P.Enumerator().function(rp)
            if len(rps) == 1 and rps[0].end[0] == 'return':
                parts = P.render_parts(rps[0].end[1])
                if parts is not None:
                    SELF_ = ('PARAM', rp.args.args[0].arg)
                    fm = [x for x in parts if x[0] == 'fmt']
                    segs, cur = [], ''
                    for x in parts:
                        if x[0] == 'lit':
                            cur += x[1]
                        else:
                            segs.append(cur)
                            cur = ''
                    segs.append(cur)
                    if not fields:
                        ok = not fm and ''.join(segs).strip() == f'{cname}()'
                    else:
                        ok = [x[1] for x in fm] == [('ATTR', SELF_, f) for f in fields] \
                            and all(x[2] == 'r' for x in fm) and len(segs) == len(fields) + 1 \
                            and segs[0].replace(' ', '') == f'{cname}({fields[0]}=' and segs[-1].strip() == ')' \
                            and all(segs[i].replace(' ', '') == f',{fields[i]}=' for i in range(1, len(fields)))
            if not ok:
                bad('C14-field-tables', f'{m.label}: {cname}.__repr__ is not {cname}(<field>=<value!r>, ...) over '
                                        f'_fields in order')
            # constructor call in the parse function
            pf = funcs.get(impl(cname))
            if pf is None:
                bad('C05-class-ctor', f'{m.label}: class {cname} has no parse function {impl(cname)}')
                continue
            ctor = [x for x in ast.walk(pf) if isinstance(x, ast.Call) and isinstance(x.func, ast.Name)
                    and x.func.id == cname]
            if len(ctor) != 1:
                bad('C05-class-ctor', f'{m.label}: {impl(cname)} constructs {cname} {len(ctor)} times')
                continue
            args = [ast.unparse(a) for a in ctor[0].args]
            if args != fields or ctor[0].keywords:
                bad('C05-class-ctor', f'{m.label}: {impl(cname)} calls {cname}({", ".join(args)}); the fields are '
                                      f'{fields} (declaration order, let/pass members dropped)')
    if stats is not None:
        stats['classes'] = stats.get('classes', 0) + n
    if rep is not None:
        rep.count('generated classes examined', n)
        for rule, msg in found:
            if only_rules is None or rule in only_rules:
                rep.add(Finding(rule, 'sourcer/expressions/class_.py:Class._compile', '', msg,
                                'sourcer/expressions/class_.py:Class._compile_class_body'))
    return found


def class_members(R, bad, stats):
    """C05 d: member kinds - plain fields are passed, `let` fields and `pass` members are parsed
    (their expression is compiled into the parse function) but not passed, `requires` is a Where."""
    for e in emitted_modules()[1]:
        if not isinstance(e, modroute.Emitted) or getattr(e, 'route', None) != 'classes':
            continue
        funcs = functions_top(e.tree)
        pf = funcs.get(impl('K'))
        if pf is None:
            raise AnalysisError('route classes: parse function of K missing')
        src = ast.unparse(pf)
        stats['member_checks'] += 1
        # members in order: f (Ref X), g let "q", pass "z", requires, h (Call P)
        reqs = [ast.unparse(c) for c, p, y in requests_in(pf)]
        consts = [n.value for n in ast.walk(pf) if isinstance(n, ast.Constant) and isinstance(n.value, str)]
        if "'q'" not in src and 'q' not in consts:
            bad('C05-class-members', f'{e.label}: the `let` member of K is not parsed')
        if 'z' not in consts:
            bad('C05-class-members', f'{e.label}: the `pass` member of K is not parsed')
        if 'lambda _: zf != g' not in src:
            bad('C05-class-members', f'{e.label}: the `requires` condition of K is not evaluated')
        # binder order: each named member is bound before the next member starts
        stores = [(n.lineno, t.id) for n in ast.walk(pf) if isinstance(n, ast.Assign)
                  for t in n.targets if isinstance(t, ast.Name) and t.id in ('zf', 'g', 'ah')
                  and isinstance(n.value, ast.Name) and n.value.id == '_result']
        order = [nm for _, nm in sorted(stores)]
        if order != ['zf', 'g', 'ah']:
            bad('C05-class-members', f'{e.label}: members of K are bound in the order {order}')


ROUTE_PROPS = [
    (('ignore', 'class-start', 'templates-ignore'), {'C04', 'C11'}),
    (('templates', 'shadow', 'let'), {'C05', 'C06', 'C11'}),
    (('classes',), {'C05', 'C08', 'C11', 'C14'}),
    (('sub-',), {'C13', 'C11'}),
    (('plain',), {'C11', 'C08'}),
    (('deep-nesting',), {'C17', 'C11'}),
    (('sub-',), {'C18'}),
]


def emitted_prefixes():
    """name prefixes of what the generator emits per grammar (as opposed to the runtime templates)"""
    hp = helper_prefix()
    if hp not in P.EMITTED_PREFIXES:
        P.EMITTED_PREFIXES.append(hp)
    return tuple(P.EMITTED_PREFIXES)


def helper_prefix():
    """literal prefix of the names `Expression.functionalize` gives its helper functions (read off the
    f-string in the generator, so that renaming the helpers does not blind the rules)"""
    if 'helper_prefix' in _cache:
        return _cache['helper_prefix']
    pre = None

    def leading_literal(n):
        """the literal text a string-building expression starts with (f-string, .format, %, +)"""
        if isinstance(n, ast.JoinedStr) and n.values and isinstance(n.values[0], ast.Constant):
            return n.values[0].value
        if isinstance(n, ast.Call) and isinstance(n.func, ast.Attribute) and n.func.attr == 'format' \
                and isinstance(n.func.value, ast.Constant) and isinstance(n.func.value.value, str):
            return n.func.value.value.split('{')[0]
        if isinstance(n, ast.BinOp) and isinstance(n.op, ast.Mod) and isinstance(n.left, ast.Constant) \
                and isinstance(n.left.value, str):
            return n.left.value.split('%')[0]
        if isinstance(n, ast.BinOp) and isinstance(n.op, ast.Add):
            if isinstance(n.left, ast.Constant) and isinstance(n.left.value, str):
                return n.left.value
            return leading_literal(n.left)
        return None
    try:
        tree = load.parse('sourcer/expressions/base.py')
        for fname, fn in load.functions_of(tree).items():
            if fname.endswith('functionalize'):
                for n in ast.walk(fn):
                    if isinstance(n, (ast.JoinedStr, ast.Call, ast.BinOp)) and 'program_id' in ast.unparse(n):
                        lit = leading_literal(n)
                        if lit and lit.strip() and pre is None:
                            pre = lit
    except AnalysisError:
        pass
    if pre is None:
        raise AnalysisError('anchor: the name Expression.functionalize gives its helper functions cannot be read '
                            'off sourcer/expressions/base.py')
    _cache['helper_prefix'] = pre
    return pre


def argument_captures(m, bad, stats):
    """A compound template argument is compiled into a helper function; the names of the enclosing
    body it uses (parameters, let variables, fields: its free variables in the grammar skeleton) are
    handed to that helper at the place of the call - `_ParseFunction(helper, (names...), ())`.
    Expected captures come from the skeleton objects, found captures from the emitted rule function:
    a helper shared between two places where the same text binds differently captures nothing."""
    body = getattr(m, 'body', None)
    if not body:
        return
    R, _ = emitted_modules()
    hp = helper_prefix()
    for top in body:
        if not isinstance(top, M.Obj) or top.cls.name not in ('Rule', 'Class') or not top.d.get('name'):
            continue
        want = []
        for o in walk_objs(top):
            if o.cls.name != 'Call':
                continue
            for a in o.d.get('args') or []:
                e = a.d.get('expr') if isinstance(a, M.Obj) and a.cls.name == 'KeywordArg' else a
                if not isinstance(e, M.Obj) or e.cls.name in ('Ref', 'Str', 'Byte', 'PythonExpression', 'Call'):
                    continue
                try:
                    fv = R.it.call(R.it.getattr(e, 'freevars'), [], {})
                except M.MetaRaise:
                    continue
                if fv:
                    want.append(tuple(sorted(fv)))
        if not want:
            continue
        fn = functions_top(m.tree).get(impl(top.d['name']))
        if fn is None:
            continue
        got = []
        for n in ast.walk(fn):
            if isinstance(n, ast.Call) and isinstance(n.func, ast.Name) and n.func.id == '_ParseFunction' \
                    and len(n.args) >= 2 and isinstance(n.args[0], ast.Name) and n.args[0].id.startswith(hp) \
                    and isinstance(n.args[1], ast.Tuple):
                got.append(tuple(ast.unparse(x) for x in n.args[1].elts))
        stats['argument_captures'] = stats.get('argument_captures', 0) + len(want)
        missing = list(want)
        for g in got:
            if g in missing:
                missing.remove(g)
        for w in missing:
            bad('ARG-captures', f'{m.label}: {impl(top.d["name"])} passes a compound argument that uses the local '
                                f'name(s) {list(w)}, but no helper in it is given them (found captures: {got}): '
                                f'inside the argument the name denotes something else than the value bound in '
                                f'this invocation')


def span_start_first(m, bad, stats):
    """C10: the span of a class instance starts at the offset the class was invoked at.  In the emitted parse
    function of every class the position is captured (`start = _pos`, the name that later goes into
    position_info) before anything can move `_pos` - no request, no assignment to `_pos` precedes it."""
    body = getattr(m, 'body', None)
    if not body:
        return
    funcs = functions_top(m.tree)
    for top in body:
        if not isinstance(top, M.Obj) or top.cls.name != 'Class' or not top.d.get('name'):
            continue
        fn = funcs.get(impl(top.d['name']))
        if fn is None:
            continue
        starts = set()
        for n in ast.walk(fn):
            if isinstance(n, ast.Assign) and any(isinstance(t, ast.Attribute) and t.attr == 'position_info'
                                                 for t in n.targets) and isinstance(n.value, ast.Tuple) and n.value.elts \
                    and isinstance(n.value.elts[0], ast.Name):
                starts.add(n.value.elts[0].id)
        if not starts:
            continue            # the span rules of the skeleton (S-span) report a missing record
        stats['class_span_functions'] = stats.get('class_span_functions', 0) + 1
        capture = [n for n in ast.walk(fn) if isinstance(n, ast.Assign) and isinstance(n.value, ast.Name)
                   and n.value.id == '_pos' and any(isinstance(t, ast.Name) and t.id in starts for t in n.targets)]
        moves = [n for n in ast.walk(fn) if isinstance(n, (ast.Assign, ast.AugAssign))
                 and any(isinstance(x, ast.Name) and x.id == '_pos' and isinstance(x.ctx, ast.Store)
                         for t in (n.targets if isinstance(n, ast.Assign) else [n.target]) for x in ast.walk(t))]
        # the instance that receives the span is built by this match (a constructor call in this function), not an
        # object kept at module level and handed out again
        cname = top.d['name']
        def is_ctor(f):
            return (isinstance(f, ast.Name) and f.id == cname) or (isinstance(f, ast.Attribute) and f.attr == cname)
        # (the instance may be staged in a temporary before it reaches the result register)
        built = [n for n in ast.walk(fn) if isinstance(n, ast.Assign) and isinstance(n.value, ast.Call)
                 and is_ctor(n.value.func)]
        cdef_ = m.classes.get(cname)
        if cdef_ is not None and any(isinstance(x, ast.FunctionDef) and x.name == '__new__' for x in cdef_.body):
            bad('SPAN-fresh-instance', f'{m.label}: class {cname} defines __new__: calling the constructor need not build a new '
                                       f'object, so the span of one match may be written onto the instance of another')
        if not built:
            got = [ast.unparse(n.value)[:40] for n in ast.walk(fn) if isinstance(n, ast.Assign)
                   and any(isinstance(t, ast.Name) and t.id == '_result' for t in n.targets)
                   and isinstance(n.value, ast.Name) and n.value.id in module_level_names(m.tree)]
            bad('SPAN-fresh-instance', f'{m.label}: {fn.name} does not build a new {cname}(...) for the match'
                                       + (f' (it hands out the module-level object {got[0]})' if got else '') +
                ': the span is written onto an object shared by every match of the class, so each match overwrites '
                'the span of the earlier ones')
        if not capture:
            bad('SPAN-start-first', f'{m.label}: {fn.name}: the start of the span ({sorted(starts)}) is not taken from '
                                    f'`_pos`')
            continue
        first_move = min((n.lineno for n in moves), default=None)
        if first_move is not None and first_move < min(n.lineno for n in capture):
            mv = min(moves, key=lambda n: n.lineno)
            bad('SPAN-start-first', f'{m.label}: {fn.name} moves the position (`{ast.unparse(mv)[:70]}`) before it '
                                    f'records where the instance starts: the span begins after what was consumed '
                                    f'there (e.g. leading ignorable text), not at the offset the class was invoked at')


def keyword_arguments(m, bad, stats):
    """C06: `T(a=x)` binds by name *at the callee that runs* - which, in a named grammar, a sub-grammar may
    have overridden with the parameters declared in another order.  So a keyword argument travels as a
    keyword (name, value) in the call object; it is never turned into a position with the help of a
    declaration seen at compile time.  For every rule of the route grammars whose body is one call, the
    emitted call object carries exactly the written positional arguments and exactly the written names."""
    body = getattr(m, 'body', None)
    if not body or not m.uses_context:
        return          # only a named grammar can be extended: elsewhere the declaration seen is the callee
    for top in body:
        if not isinstance(top, M.Obj) or top.cls.name != 'Rule' or not top.d.get('name'):
            continue
        call = top.d.get('expr')
        if not (isinstance(call, M.Obj) and call.cls.name == 'Call'):
            continue
        args = call.d.get('args') or []
        kws = [a.d.get('name') for a in args if isinstance(a, M.Obj) and a.cls.name == 'KeywordArg']
        npos = len(args) - len(kws)
        if not kws:
            continue
        fn = functions_top(m.tree).get(impl(top.d['name']))
        if fn is None:
            continue
        calls = [n for n in ast.walk(fn) if isinstance(n, ast.Call) and isinstance(n.func, ast.Name)
                 and n.func.id == '_ParseFunction' and len(n.args) == 3]
        # the call object of the rule's own call: the one that is requested (outermost, built last)
        stats['keyword_call_sites'] = stats.get('keyword_call_sites', 0) + 1
        if not calls:
            bad('ARG-by-name', f'{m.label}: {fn.name}: no call object for a call with keyword arguments {kws}')
            continue
        outer = calls[-1] if len(calls) == 1 else max(calls, key=lambda c: (c.lineno, c.col_offset))
        pos_t, kw_t = outer.args[1], outer.args[2]
        if not (isinstance(pos_t, ast.Tuple) and isinstance(kw_t, ast.Tuple)):
            continue        # another display (a dict ...): the hashability / arity rules speak about it
        got = []
        for e in kw_t.elts:
            if isinstance(e, ast.Tuple) and len(e.elts) == 2 and isinstance(e.elts[0], ast.Constant):
                got.append(e.elts[0].value)
            else:
                got.append(ast.unparse(e))
        if sorted(got) != sorted(kws) or len(pos_t.elts) != npos:
            bad('ARG-by-name', f'{m.label}: {fn.name}: the call is written with {npos} positional and the keyword '
                               f'argument(s) {kws}; the emitted call object passes {len(pos_t.elts)} positional and the '
                               f'keyword(s) {got}: a keyword argument turned into a position is bound by the order of '
                               f'a declaration seen at compile time, not by name at the callee that runs (a '
                               f'sub-grammar may override the callee with another parameter order)')


def parameter_order(m, bad, stats):
    """positional arguments are emitted in the order written at the call; the function that receives
    them takes its parameters in the order declared by the rule or class (after the convention
    prefix) - not in any other order"""
    body = getattr(m, 'body', None)
    if not body:
        return
    pre = prefix_params(m.uses_context)
    for top in body:
        if not isinstance(top, M.Obj) or top.cls.name not in ('Rule', 'Class'):
            continue
        params = top.d.get('params')
        if not params or not top.d.get('name'):
            continue
        fn = functions_top(m.tree).get(impl(top.d['name']))
        if fn is None:
            continue
        got = positional_params(fn)
        stats['parameter_lists'] = stats.get('parameter_lists', 0) + 1
        if got[:len(pre)] == list(pre) and got[len(pre):] != list(params):
            bad('CONV-param-order', f'{m.label}: {fn.name} takes {got[len(pre):]} after the convention prefix; '
                                    f'{top.d["name"]} declares {list(params)}: positional arguments are bound to '
                                    f'other parameters than the corresponding ones')


def temp_allocation_unique(m, bad, stats):
    """Every temporary the builder hands out while a module is emitted ends up in a function of its
    own or under a name of its own: if a name was handed out k times it must be stored in at least
    k different functions (otherwise one function hosts two allocations of one name, and the
    later one overwrites a value the earlier one still needs - e.g. after the counters were reset
    when code was split into a helper function)."""
    alloc = getattr(m, 'allocations', None)
    if alloc is None:
        return
    from collections import Counter
    cnt = Counter(alloc)
    stats['temporaries_allocated'] = stats.get('temporaries_allocated', 0) + len(alloc)
    dup = {n: k for n, k in cnt.items() if k > 1}
    if not dup:
        return
    hosts = {n: set() for n in dup}
    hosts_module = set()
    for node in ast.walk(m.tree):
        if isinstance(node, (ast.FunctionDef, ast.Lambda)):
            for x in ast.walk(node):
                if isinstance(x, ast.Name) and isinstance(x.ctx, ast.Store) and x.id in hosts:
                    hosts[x.id].add(getattr(node, 'name', '<lambda>'))
    for st in m.tree.body:
        if isinstance(st, ast.Assign):
            for t in st.targets:
                if isinstance(t, ast.Name) and t.id in hosts:
                    hosts[t.id].add('<module>')
    for n, k in sorted(dup.items()):
        if k > len(hosts[n]):
            bad('SPILL-temp-unique', f'{m.label}: the builder handed out the temporary `{n}` {k} times but it is '
                                     f'stored in only {len(hosts[n])} function(s) ({sorted(hosts[n])[:3]}): one '
                                     f'function hosts two allocations of the same name, the later overwrites the '
                                     f'earlier (temporaries must stay unique within a function)')


def route_failures(pid, rep):
    """a route on which the translator itself raises is a finding for the properties that route serves"""
    R, mods = emitted_modules()
    for m in mods:
        if isinstance(m, tuple):
            label, exc = m
            for prefixes, props in ROUTE_PROPS:
                if label.startswith(prefixes) and pid in props:
                    rep.add(Finding('ROUTE-raises', 'sourcer/translator.py:generate_source_code', label,
                                    f'compiling the route grammar {label} raises {exc}',
                                    getattr(exc, 'where', '') or 'sourcer/translator.py'))


PY_MARKERS = ('zz_arg', 'zz_cls_arg', 'zz_kw_arg', 'zz_fn', 'zz_pred', 'zz_let', 'zz_elem', 'zz_lo', 'zz_hi',
              'zz_nested_arg')


def python_in_place(m, bad, stats):
    """C18 / C05: inline Python is evaluated where the grammar puts it - inside the rule function, on
    every visit of every parse call.  Text hoisted to module level (or into a default argument, a
    decorator, a class body) is evaluated once, when the module is loaded: whatever it builds is then one
    object shared by every parse call and every thread, and it cannot read the rule's locals."""
    if getattr(m, 'route', '') != 'inline-python':
        return
    inside, outside = {}, {}

    def walk(node, fn):
        for ch in ast.iter_child_nodes(node):
            if isinstance(ch, (ast.FunctionDef, ast.AsyncFunctionDef, ast.Lambda)):
                # defaults and decorators are evaluated where the definition stands
                for d in list(ch.args.defaults) + [x for x in ch.args.kw_defaults if x is not None] + \
                        list(getattr(ch, 'decorator_list', [])):
                    walk_expr(d, fn)
                body = ch.body if isinstance(ch.body, list) else [ch.body]
                for st in body:
                    walk_stmt(st, ch if not isinstance(ch, ast.Lambda) else (fn or ch))
            else:
                if isinstance(ch, ast.Name) and ch.id in PY_MARKERS:
                    (inside if fn is not None else outside).setdefault(ch.id, []).append(fn)
                walk(ch, fn)

    def walk_expr(e, fn):
        if isinstance(e, ast.Name) and e.id in PY_MARKERS:
            (inside if fn is not None else outside).setdefault(e.id, []).append(fn)
        walk(e, fn)

    walk_stmt = walk_expr
    walk(m.tree, None)
    for mk in PY_MARKERS:
        stats['inline_python_sites'] = stats.get('inline_python_sites', 0) + 1
        if mk in outside:
            bad('PY-in-place@' + mk, f'{m.label}: the inline Python `{mk}()` is evaluated at module level (once, when '
                                      f'the module is loaded) instead of inside the rule function: its value is shared '
                                      f'by every parse call on the module')
        elif mk not in inside:
            bad('PY-in-place@' + mk, f'{m.label}: the inline Python `{mk}()` does not appear in the emitted module')
        else:
            gens = [f for f in inside[mk] if isinstance(f, ast.FunctionDef)]
            if not all(f.name.startswith(emitted_prefixes()) for f in gens):
                bad('PY-in-place@' + mk, f'{m.label}: the inline Python `{mk}()` is evaluated in '
                                          f'{sorted({f.name for f in gens})}, not in a rule function')


def run(rep, pid, rules, label_filter=None, always=()):
    """run the module-level route rules; add findings whose rule id starts with one of `rules`"""
    R, mods = emitted_modules()
    stats = {k: 0 for k in ('callsites', 'entries', 'ctx_reads', 'globals', 'literals', 'ignore_modules',
                            'ignored_rules', 'skip_calls', 'ignored_name_sites', 'error_functions',
                            'member_checks', 'classes')}
    found = []
    bad = lambda rule, msg: found.append((rule, msg))
    nmods = 0
    for m in mods:
        if not isinstance(m, modroute.Emitted):
            continue
        nmods += 1
        conformance(m, bad, stats)
        local_shadowing(m, bad, stats)
        let_scope(m, bad, stats)
        context_wiring(m, bad, stats)
        free_names(m, bad, stats)
        temp_allocation_unique(m, bad, stats)
        argument_captures(m, bad, stats)
        parameter_order(m, bad, stats)
        keyword_arguments(m, bad, stats)
        span_start_first(m, bad, stats)
        python_in_place(m, bad, stats)
    ignore_distribution(R, bad, stats)
    start_prefix_and_ignored_rule(R, mods, bad, stats)
    route_ignored_sets(R, bad, stats)
    who_may_call_ignored(bad, stats)
    wrapper_owners(bad, stats)
    error_functions(mods, bad, stats)
    class_tables(bad=bad, stats=stats)
    class_members(R, bad, stats)
    adaptor_rules(bad, stats)
    subgrammar_imports(bad, stats)
    inherited_start(bad, stats)
    parameterless_call_key(bad, stats)
    route_failures(pid, rep)
    rep.count('route modules emitted', nmods)
    for k, v in stats.items():
        if v:
            rep.count(f'route facts: {k}', v)
    # `always`: rules selected on every route, whatever the label filter says
    sel = [(r, msg) for r, msg in found if r.startswith(tuple(rules))
           and (label_filter is None or label_filter(msg) or r.startswith(tuple(always) or ('\0',)))]
    rep.obligations += nmods * len(rules)
    rep.discharged += nmods * len(rules) - len({(r, msg.split(': ')[0]) for r, msg in sel})
    for rule, msg in sel:
        label = msg.split(': ')[0]
        rid, _, inst = rule.partition('@')
        # key = rule : route label / instance  (instance names the attribute / kind, never a line)
        rep.add(Finding(rid, 'emitted-module', label.split('[')[0] + ('/' + inst if inst else ''), msg,
                        'sourcer/translator.py:generate_source_code + sourcer/expressions (route ' + label + ')'))
    return found, stats, nmods


# --------------------------------------------------------------------------- adaptors / import list
def adaptor_rules(bad, stats):
    """the call adaptors of the runtime pass exactly the convention prefix and the stored arguments"""
    for what, tree, rel in runtime_subjects():
        cs = load.classes_of(tree)
        fns = load.functions_of(tree)
        run = fns.get('_run')
        if run is None:
            raise AnalysisError(f'{what}: anchor _run vanished')
        ctx = bool(run.args.args and run.args.args[0].arg == '_ctx')
        pre = prefix_params(ctx)
        PRE = tuple(('PARAM', p) for p in pre)
        SELF = ('PARAM', 'self')
        for cname, want_fn in (('_ParseFunction', None), ('_StringLiteral', '_parse_function'),
                               ('_ByteLiteral', '_parse_function')):
            c = cs.get(cname)
            if c is None:
                raise AnalysisError(f'{what}: anchor class {cname} vanished')
            if cname == '_ParseFunction':
                # the call object is a memo-key component: two invocations are the same call only if target,
                # positional and keyword arguments all agree - the record's own (tuple) equality and hash
                for m_ in c.body:
                    if isinstance(m_, ast.FunctionDef) and m_.name in ('__eq__', '__hash__', '__ne__'):
                        covers = all(f in ast.unparse(m_) for f in ('kwargs', 'args', 'func'))
                        if not covers:
                            bad('ARG-key-complete', f'{what}: _ParseFunction.{m_.name} does not compare all of func, args '
                                                    f'and kwargs: two invocations that differ in what it leaves out share '
                                                    f'one memo entry - the second receives the result computed with the '
                                                    f'other one\'s arguments')
            call = next((m for m in c.body if isinstance(m, ast.FunctionDef) and m.name == '__call__'), None)
            if call is None:
                bad('ADAPTOR', f'{what}: {cname} is no longer callable: the driver starts it like a parse function')
                continue
            stats['adaptors'] = stats.get('adaptors', 0) + 1
            params = positional_params(call)
            if params != ['self'] + pre:
                bad('ADAPTOR', f'{what}: {cname}.__call__ takes {params}; the driver calls it with {pre}')
                continue
            ps = P.Enumerator().function(call)
            if len(ps) != 1 or ps[0].end[0] != 'return':
                raise AnalysisError(f'{what}: {cname}.__call__ changed shape')
            r = ps[0].end[1]
            # a record class may be unpacked instead of read by field name: self#i is self.<field i>
            rec = None
            for bse in c.bases:
                if isinstance(bse, ast.Call) and ast.unparse(bse.func).split('.')[-1] in ('_nt', 'namedtuple') \
                        and len(bse.args) == 2 and isinstance(bse.args[1], ast.Constant):
                    fv = bse.args[1].value
                    rec = tuple(fv.replace(',', ' ').split()) if isinstance(fv, str) else tuple(fv)
            if rec:
                r = walkers.substitute(r, {('UNPACK', SELF, i): ('ATTR', SELF, f) for i, f in enumerate(rec)})
            if want_fn:
                want = ('CALL', ('ATTR', SELF, want_fn)) + PRE
                if r != want:
                    bad('ADAPTOR', f'{what}: {cname}.__call__ returns {P.tfmt(r)}; expected '
                                   f'self.{want_fn}({", ".join(pre)})')
            else:
                want = ('CALL', ('ATTR', SELF, 'func')) + PRE + (
                    ('STAR', ('ATTR', SELF, 'args')),
                    ('KW', None, ('CALL', ('VAR', 'dict'), ('ATTR', SELF, 'kwargs'))))
                if r != want:
                    bad('ADAPTOR', f'{what}: _ParseFunction.__call__ returns {P.tfmt(r)}; expected '
                                   f'self.func({", ".join(pre)}, *self.args, **dict(self.kwargs))')
        for wname, cname in (('_wrap_string_literal', '_StringLiteral'), ('_wrap_byte_literal', '_ByteLiteral')):
            w = fns.get(wname)
            if w is None:
                raise AnalysisError(f'{what}: anchor {wname} vanished')
            stats['adaptors'] = stats.get('adaptors', 0) + 1
            ps = P.Enumerator().function(w)
            a0, a1 = [('PARAM', a.arg) for a in w.args.args][:2]
            ok = len(ps) == 1 and ps[0].end[0] == 'return'
            if ok:
                made = ('CALL', ('VAR', cname), a0)
                created = [e for e in ps[0].events('assign') if e[3] == made]
                ok = bool(created)
                if ok:
                    obj = ('OBJ', created[0][2])
                    stores = [e for e in ps[0].events('attrstore')]
                    ok = any(e[2] in (('ATTR', obj, '_parse_function'), ('ATTR', made, '_parse_function'))
                             and e[3] == a1 for e in stores) and ps[0].end[1] in (made, obj)
            if not ok:
                bad('ADAPTOR', f'{what}: {wname} does not return {cname}(value) carrying the parse function')
        pf = cs['_ParseFunction']
        base = ast.unparse(pf.bases[0]) if pf.bases else ''
        if "'func, args, kwargs'" not in base.replace('"', "'"):
            bad('ADAPTOR', f'{what}: _ParseFunction fields are no longer (func, args, kwargs): {base}')


def subgrammar_imports(bad, stats):
    """a sub-grammar imports its runtime from the parent: the import list must cover every runtime
    name that *any* emission route can mention (routes of stand-alone grammars show which)"""
    R, mods = emitted_modules()
    needed = {}
    rt_names = None
    for m in mods:
        if not isinstance(m, modroute.Emitted) or m.sub:
            continue
        rt = runtime_defs(m.uses_context)
        for node in m.tree.body:
            emitted_part = isinstance(node, (ast.FunctionDef,)) and node.name.startswith(
                emitted_prefixes()) or (
                isinstance(node, ast.ClassDef) and node.name not in rt) or (
                isinstance(node, ast.Assign) and not any(isinstance(t, ast.Name) and t.id in rt for t in node.targets))
            if not emitted_part:
                continue
            for n in ast.walk(node):
                if isinstance(n, ast.Name) and isinstance(n.ctx, ast.Load) and n.id in rt \
                        and isinstance(rt[n.id], (ast.FunctionDef, ast.ClassDef, ast.Assign, ast.ImportFrom)):
                    needed.setdefault(n.id, m.label)
    imported = None
    for m in mods:
        if isinstance(m, modroute.Emitted) and m.sub:
            names = set()
            for n in m.tree.body:
                if isinstance(n, ast.ImportFrom):
                    names |= {a.asname or a.name for a in n.names}
            imported = names if imported is None else imported & names
    if imported is None:
        raise AnalysisError('no sub-grammar route was emitted')
    stats['runtime_names_needed'] = len(needed)
    for name, label in sorted(needed.items()):
        if name not in imported and name not in ('_ctx',):
            bad('SUBIMPORT-complete', f'sub-grammar prologue: the runtime name {name} (mentioned by emitted code, e.g. '
                                      f'route {label}) is not imported from the parent module: NameError in a '
                                      f'sub-grammar that uses the construct')


def inherited_start(bad, stats):
    """C13: a sub-grammar that defines no start of its own starts the nearest inherited start - a
    rule or a class - through its context (late-bound)"""
    R, mods = emitted_modules()
    for m in mods:
        if not isinstance(m, modroute.Emitted) or not m.sub or not hasattr(m, 'ancestor_nodes'):
            continue
        funcs = functions_top(m.tree)
        parse = funcs.get('parse')
        if parse is None:
            bad('START-inherited', f'{m.label}: sub-grammar module has no public parse()')
            continue
        call = [n for n in ast.walk(parse) if isinstance(n, ast.Call) and isinstance(n.func, ast.Name)
                and n.func.id == '_run']
        if len(call) != 1:
            raise AnalysisError(f'{m.label}: parse() does not call the driver once')
        got = ast.unparse(call[0].args[-2])
        own = [n for n in funcs if n.startswith('_try_') and n[5:].lower() == 'start']
        stats['sub_starts'] = stats.get('sub_starts', 0) + 1
        if own:
            want = own[0]
        else:
            want = None
            for nodes in m.ancestor_nodes:
                for st in nodes:
                    nm = getattr(st, 'name', None)
                    if isinstance(nm, str) and nm.lower() == 'start':
                        want = f'_ctx.{impl(nm)}'
                        break
                if want:
                    break
        if want is not None and got != want:
            bad('START-inherited', f'{m.label}: parse() of the sub-grammar starts {got}; the inherited start is '
                                   f'{want} (a base grammar\'s start may be a rule or a class)')


def parameterless_call_key(bad, stats):
    """C07: `R()` on a parameterless rule is the same reference as `R`: it must request the rule
    itself, so that both share one memo entry (a _ParseFunction wrapper is a different key)"""
    R, mods = emitted_modules()
    for m in mods:
        if not isinstance(m, modroute.Emitted) or getattr(m, 'route', '') not in ('templates', 'templates-ignore'):
            continue
        fn = functions_top(m.tree).get(impl('EMPTY'))
        if fn is None:
            raise AnalysisError(f'{m.label}: route rule EMPTY missing')
        env = local_assignments(fn)
        stats['empty_calls'] = stats.get('empty_calls', 0) + 1
        callees = []
        for callee, pos, y in requests_in(fn):
            s = strip_ctx(callee)
            if isinstance(callee, ast.Name) and callee.id in env:
                for v in env[callee.id]:
                    if isinstance(v, ast.Call) and isinstance(v.func, ast.Name) and v.func.id == '_ParseFunction':
                        callees.append('wrapped:' + ast.unparse(v.args[0]))
            elif s:
                callees.append(s[0])
        # the same inside a template: `q()` on a parameter requests what the parameter holds
        pk = functions_top(m.tree).get(impl('PK'))
        if pk is None:
            raise AnalysisError(f'{m.label}: route rule PK missing')
        penv = local_assignments(pk)
        stats['empty_calls'] += 1
        for callee, pos, y in requests_in(pk):
            if isinstance(callee, ast.Name) and callee.id in penv:
                for v in penv[callee.id]:
                    if isinstance(v, ast.Call) and isinstance(v.func, ast.Name) and v.func.id == '_ParseFunction' \
                            and v.args and ast.unparse(v.args[0]) == 'q':
                        bad('C07-call-key', f'{m.label}: `q()` on the template parameter q is requested through a '
                                            f'_ParseFunction wrapper: when q holds a parameterless rule R it is '
                                            f'memoised under a different key than the plain reference `R`, so the '
                                            f'rule body runs twice at one position')
        if any(c.startswith('wrapped:') and c.endswith(impl('X')) for c in callees):
            bad('C07-call-key', f'{m.label}: `X()` on the parameterless rule X is requested through a _ParseFunction '
                                f'wrapper: it is memoised under a different key than the plain reference `X`, so '
                                f'the rule body runs twice at one position')
