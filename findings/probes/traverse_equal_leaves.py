from sourcer import Grammar
g = Grammar('start = "a"')
ev = [(t.field, t.child, t.is_finished) for t in g.traverse([None, None, 'c', 'c'])]
print(ev)
