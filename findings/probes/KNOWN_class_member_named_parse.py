"""C20 (known finding KF-class-member-parse): the generator defines the entry point `parse` in the body of
every user class, after the constant members.  A constant member named `parse` is overwritten:
renaming `let kind: "k"` to `let parse: "k"` changes what `obj.parse` is.  Exit 1 while the defect exists."""
import sys
from sourcer import Grammar
out = {}
for nm in ('kind', 'parse'):
    g = Grammar('start = A\nclass A { let %s: "k"; x: "x" }' % nm)
    r = g.parse('kx')
    out[nm] = getattr(r, nm)
    print(nm, '->', repr(out[nm]))
sys.exit(0 if out['kind'] == out['parse'] == 'k' else 1)
