"""Affine forms over a few integer symbols and entailment by Fourier-Motzkin elimination.

A form is a dict {symbol: coefficient, 1: constant}.  A constraint is `form >= 0`.
entails(hyps, goal): hyps /\\ (goal <= -1) has no rational solution  =>  goal >= 0 follows
(sound for integers; exact enough for the handful of symbols used here)."""
from fractions import Fraction


def const(c):
    return {1: Fraction(c)}


def sym(s):
    return {s: Fraction(1)}


def add(a, b, k=1):
    out = dict(a)
    for s, c in b.items():
        out[s] = out.get(s, 0) + k * c
    return {s: c for s, c in out.items() if c != 0 or s == 1}


def scale(a, k):
    return {s: c * k for s, c in a.items()}


def sub(a, b):
    return add(a, b, -1)


def ge(a, b):
    """a >= b  as a constraint form"""
    return sub(a, b)


def gt(a, b):
    """a > b  (integers)  ==  a - b - 1 >= 0"""
    return add(sub(a, b), const(-1))


def eliminate(cons, var):
    pos, neg, rest = [], [], []
    for c in cons:
        k = c.get(var, 0)
        (pos if k > 0 else neg if k < 0 else rest).append(c)
    out = list(rest)
    for p in pos:
        for n in neg:
            kp, kn = p[var], -n[var]
            out.append(add(scale(p, kn), scale(n, kp)))
    return out


def infeasible(cons):
    cons = [dict(c) for c in cons]
    syms = set()
    for c in cons:
        syms |= {s for s in c if s != 1}
    for v in sorted(syms, key=str):
        cons = eliminate(cons, v)
        if len(cons) > 4000:
            return False
    for c in cons:
        if all(s == 1 for s in c) and c.get(1, 0) < 0:
            return True
    return False


def entails(hyps, goal):
    neg = add(scale(goal, -1), const(-1))        # goal <= -1
    return infeasible(list(hyps) + [neg])


def entails_eq(hyps, a, b):
    return entails(hyps, ge(a, b)) and entails(hyps, ge(b, a))


def show(f):
    parts = []
    for s, c in f.items():
        if s == 1:
            continue
        parts.append(f'{"+" if c > 0 else "-"}{"" if abs(c) == 1 else abs(c)}{s}')
    k = f.get(1, 0)
    if k or not parts:
        parts.append(f'{"+" if k >= 0 else "-"}{abs(k)}')
    return ' '.join(parts).lstrip('+')
