"""Rules over complete emitted modules (see modroute.py): calling-convention conformance,
context wiring, free-name closure, ignore distribution, error functions, class tables."""
import ast
import builtins

from .common import AnalysisError, Finding
from . import load
from . import modroute
from . import metaeval as M
from . import paths as P

_cache = {}


def impl(name):
    return f'_try_{name}'


# --------------------------------------------------------------------------- route grammars
def route_grammars(R):
    """-> list of (label, body-builder, kwargs for emit).  Builders are called once per
    emission (generate_source_code mutates the expression objects)."""
    G = []

    def plain():
        return [R.Rule('start', R.Right(R.Str('a'), R.Ref('X'))),
                R.Rule('X', R.Regex('b+')),
                R.Rule('Y', R.Choice(R.Ref('X'), R.Str('c')))]
    G.append(('plain', plain, {}))

    def ignore_named():
        return plain() + [R.Rule('Space', R.Regex(r'\s+'), ignored=True)]
    G.append(('ignore-named', ignore_named, {}))

    def ignore_anon():
        return plain() + [R.Rule(None, R.Regex(r'\s+'), ignored=True)]
    G.append(('ignore-anon', ignore_anon, {}))

    def ignore_two_first():
        return [R.Rule(None, R.Regex(r'#[^\n]*'), ignored=True),
                R.Rule('Space', R.Seq(R.Str('{-'), R.Regex('[A-Z]+'), R.Str('-}')), ignored=True)] + plain()
    G.append(('ignore-two-first', ignore_two_first, {}))

    def class_start():
        return [R.Class('Start', [R.Rule('a', R.Str('x')), R.Rule('b', R.Ref('X'))]),
                R.Rule('X', R.Regex('b+')),
                R.Rule('Space', R.Regex(r'\s+'), ignored=True)]
    G.append(('class-start-ignore', class_start, {}))

    def classes():
        req = R.Rule(None, R.Where(R.Py('None'), R.Py('lambda _: f != g')), omitted=True)
        return [R.Rule('start', R.Ref('K')),
                R.Class('K', [R.Rule('f', R.Ref('X')),
                              R.Rule('g', R.Str('q'), omitted=True),
                              R.Rule(None, R.Str('z'), omitted=True),
                              req,
                              R.Rule('h', R.Call(R.Ref('P'), [R.Py('2')]))]),
                R.Class('P', [R.Rule('v', R.List(R.Ref('X'), min_len='n', max_len='n'))], params=['n']),
                R.Class('E', []),
                R.Rule('X', R.Regex('b+'))]
    G.append(('classes', classes, {}))

    def templates():
        T = lambda *args: R.Call(R.Ref('T'), list(args))
        return [R.Rule('start', R.Ref('U')),
                R.Rule('T', R.Right(R.Ref('p'), R.Str('!')), params=['p']),
                R.Rule('U', T(R.Str('a'))),
                R.Rule('V', T(R.Ref('X'))),
                R.Rule('W', T(R.Ref('q')), params=['q']),
                R.Rule('Z', T(R.Seq(R.Str('a'), R.Ref('X')))),
                R.Rule('A1', T(R.Seq(R.Ref('r'), R.Str('x'))), params=['r']),
                R.Rule('B2', T(R.Seq(R.Ref('r'), R.Ref('s'))), params=['r', 's']),
                R.Rule('C3', T(R.Seq(R.Ref('r'), R.Ref('s'), R.Ref('t'))), params=['r', 's', 't']),
                R.Rule('KWC', T(R.Kw('p', R.Str('k')))),
                R.Rule('KWR', T(R.Kw('p', R.Ref('X')))),
                R.Rule('PYC', T(R.Py('1 + 1'))),
                R.Rule('BYT', T(R.Byte(0x41))),
                R.Rule('NEST', T(T(R.Str('n')))),
                R.Rule('X', R.Regex('b+'))]
    G.append(('templates', templates, {}))

    def templates_ignore():
        return templates() + [R.Rule('Space', R.Regex(r'\s+'), ignored=True)]
    G.append(('templates-ignore', templates_ignore, {}))

    def shadow():
        return [R.Rule('start', R.Call(R.Ref('Listing'), [R.Ref('Number')])),
                R.Rule('Item', R.Regex('[a-z]+')),
                R.Rule('Number', R.Regex('[0-9]+')),
                R.Rule('Listing', R.Right(R.Str('['), R.Ref('Item')), params=['Item']),
                R.Rule('L2', R.Let('Item', R.Str('a'), R.Right(R.Str('='), R.Ref('Item')))),
                R.Class('CP', [R.Rule('v', R.Ref('Number'))], params=['Number'])]
    G.append(('shadow', shadow, {}))

    def let():
        return [R.Rule('start', R.Let('x', R.Ref('X'), R.Call(R.Ref('T'), [R.Ref('x')]))),
                R.Rule('T', R.Right(R.Ref('p'), R.Str('!')), params=['p']),
                R.Rule('X', R.Regex('b+'))]
    G.append(('let', let, {}))
    return G


def sub_routes(R):
    """-> list of (label, parent body nodes (parser stub nodes), parent expression builder,
    child builder, parent name)"""
    N = modroute.node

    def parent_nodes(anon_ignore):
        nodes = [N('RuleDef', is_override=False, is_ignored=False, name='start', params=None, expr=None),
                 N('RuleDef', is_override=False, is_ignored=False, name='X', params=None, expr=None),
                 N('RuleDef', is_override=False, is_ignored=False, name='Y', params=None, expr=None),
                 N('ClassDef', name='K', params=None, members=[])]
        if anon_ignore:
            nodes.append(N('IgnoreStmt', expr=None))
        else:
            nodes.append(N('RuleDef', is_override=False, is_ignored=True, name='Space', params=None, expr=None))
        return nodes

    def parent_exprs(anon_ignore):
        def build():
            return [R.Rule('start', R.Right(R.Str('a'), R.Ref('X'))),
                    R.Rule('X', R.Regex('b+')),
                    R.Rule('Y', R.Choice(R.Ref('X'), R.Str('c'))),
                    R.Class('K', [R.Rule('f', R.Ref('X'))]),
                    R.Rule(None if anon_ignore else 'Space', R.Regex(r'\s+'), ignored=True)]
        return build

    def child():
        return [R.Rule('X', R.Choice(R.Super('X'), R.Str('z'))),
                R.Rule('N', R.Seq(R.Ref('X'), R.Ref('Y'), R.Ref('K')))]

    def child_ignore():
        return child() + [R.Rule('Comment', R.Regex('#.*'), ignored=True)]
    out = []
    for anon in (False, True):
        tag = 'anon' if anon else 'named'
        out.append((f'sub-{tag}-ignore', parent_nodes(anon), parent_exprs(anon), child))
        out.append((f'sub-{tag}-ignore+own', parent_nodes(anon), parent_exprs(anon), child_ignore))
    return out


def emitted_modules():
    """-> (R, list of Emitted or (label, MetaRaise))"""
    if 'mods' in _cache:
        return _cache['mods']
    R = modroute.Routes()
    out = []
    for label, build, kw in route_grammars(R):
        for name in (None, 'gmod'):
            e = R.emit(f'{label}[ctx={int(name is not None)}]', build(), name=name)
            out.append(e if isinstance(e, modroute.Emitted) else (f'{label}[ctx={int(name is not None)}]', e))
    for label, pnodes, pbuild, cbuild in sub_routes(R):
        pe = R.emit(f'{label}:parent', pbuild(), name='pmod')
        ce = R.emit(f'{label}:child', cbuild(), name='cmod', extends=R.parent('pmod', pnodes))
        for e, l in ((pe, f'{label}:parent'), (ce, f'{label}:child')):
            out.append(e if isinstance(e, modroute.Emitted) else (l, e))
        if isinstance(ce, modroute.Emitted) and isinstance(pe, modroute.Emitted):
            ce.parent = pe
        # three-level chain
        ge = R.emit(f'{label}:grandchild', [R.Rule('N2', R.Choice(R.Super('N'), R.Super('X')))], name='gcmod',
                    extends=R.parent('cmod', [modroute.node('RuleDef', is_override=False, is_ignored=False,
                                                            name='X', params=None, expr=None),
                                              modroute.node('RuleDef', is_override=False, is_ignored=False,
                                                            name='N', params=None, expr=None)],
                                     extends=R.parent('pmod', pnodes)))
        if isinstance(ge, modroute.Emitted):
            ge.parent = ce if isinstance(ce, modroute.Emitted) else None
            out.append(ge)
        else:
            out.append((f'{label}:grandchild', ge))
    _cache['mods'] = (R, out)
    return _cache['mods']


RUNTIME_NAMES = None


def runtime_subjects():
    """The runtime as it is actually emitted: for every route module the part that comes from
    the templates (functions/classes whose names the templates define), de-duplicated by text;
    plus the copy embedded in the shipped parser.  -> list of (what, tree, rel)"""
    if 'rt_subjects' in _cache:
        return _cache['rt_subjects']
    names = set()
    for ctx in (False, True):
        try:
            tree, _ = load.runtime_ast(ctx)
            names |= {n.name for n in tree.body if isinstance(n, (ast.FunctionDef, ast.ClassDef))}
        except AnalysisError:
            pass
    R, mods = emitted_modules()
    out, seen = [], set()
    for m in mods:
        if not isinstance(m, modroute.Emitted) or m.sub:
            continue
        if not names:
            names = {n.name for n in m.tree.body if isinstance(n, (ast.FunctionDef, ast.ClassDef))
                     and not n.name.startswith(('_try_', '_parse_', '_raise_error'))}
        sig = '\n'.join(ast.unparse(n) for n in m.tree.body
                        if isinstance(n, (ast.FunctionDef, ast.ClassDef)) and n.name in names)
        if sig in seen:
            continue
        seen.add(sig)
        out.append((f'runtime emitted for route {m.label}', m.tree, 'sourcer/translator.py'))
    if not out:
        for ctx in (False, True):
            tree, _ = load.runtime_ast(ctx)
            out.append((f'translator.py:_main_template[ctx={int(ctx)}]', tree, 'sourcer/translator.py'))
    out.append(('sourcer/parser.py (generated)', load.parse('sourcer/parser.py'), 'sourcer/parser.py'))
    _cache['rt_subjects'] = out
    return out


# --------------------------------------------------------------------------- helpers
def runtime_defs(uses_context):
    """name -> FunctionDef/ClassDef of the runtime template for this convention"""
    tree, src = load.runtime_ast(uses_context)
    out = {}
    for n in tree.body:
        if isinstance(n, (ast.FunctionDef, ast.ClassDef)):
            out[n.name] = n
        elif isinstance(n, ast.Assign):
            for t in n.targets:
                if isinstance(t, ast.Name):
                    out[t.id] = n
        elif isinstance(n, (ast.Import, ast.ImportFrom)):
            for a in n.names:
                out[(a.asname or a.name).split('.')[0]] = n
    return out


def module_level_names(tree):
    out = {}
    for n in tree.body:
        if isinstance(n, (ast.FunctionDef, ast.ClassDef)):
            out[n.name] = n
        elif isinstance(n, ast.Assign):
            for t in n.targets:
                if isinstance(t, ast.Name):
                    out[t.id] = n
        elif isinstance(n, (ast.Import, ast.ImportFrom)):
            for a in n.names:
                out[(a.asname or a.name).split('.')[0]] = n
    return out


def prefix_params(uses_context):
    return (['_ctx'] if uses_context else []) + ['_text', '_pos']


def positional_params(fn):
    a = fn.args
    return [x.arg for x in a.posonlyargs + a.args]


def required_count(fn):
    return len(positional_params(fn)) - len(fn.args.defaults)


def functions_top(tree):
    return {n.name: n for n in tree.body if isinstance(n, ast.FunctionDef)}


def is_generator(fn):
    for n in ast.walk(fn):
        if isinstance(n, (ast.Yield, ast.YieldFrom)):
            # not inside a nested def
            return True
    return False


def requests_in(fn):
    """yield (TAG, callee, pos) requests in a function -> list of (callee node, pos node, yield node)"""
    out = []
    for n in ast.walk(fn):
        if isinstance(n, ast.Yield) and isinstance(n.value, ast.Tuple) and len(n.value.elts) == 3 \
                and isinstance(n.value.elts[0], ast.Constant):
            out.append((n.value.elts[1], n.value.elts[2], n))
    out.sort(key=lambda t: (t[2].lineno, t[2].col_offset))
    return out


def strip_ctx(node):
    """_ctx.NAME / NAME -> (NAME, via) ; _super_ctx.NAME -> (NAME, 'super') ; else None"""
    if isinstance(node, ast.Name):
        return node.id, 'bare'
    if isinstance(node, ast.Attribute) and isinstance(node.value, ast.Name):
        if node.value.id == '_ctx':
            return node.attr, 'ctx'
        if node.value.id == '_super_ctx':
            return node.attr, 'super'
    if isinstance(node, ast.Attribute) and isinstance(node.value, ast.Attribute) \
            and isinstance(node.value.value, ast.Name) and node.value.value.id == '_ctx' \
            and node.value.attr == '_super_ctx':
        return node.attr, 'ctx.super'
    return None


def local_assignments(fn):
    """name -> list of value nodes assigned to it inside fn (simple Name targets)"""
    out = {}
    for n in ast.walk(fn):
        if isinstance(n, ast.Assign):
            for t in n.targets:
                if isinstance(t, ast.Name):
                    out.setdefault(t.id, []).append(n.value)
    return out


# --------------------------------------------------------------------------- conformance
def conformance(mod, bad, stats):
    """every callee receives exactly the arguments its definition takes, in this convention"""
    ctx = mod.uses_context
    pre = prefix_params(ctx)
    npre = len(pre)
    funcs = functions_top(mod.tree)
    rt = runtime_defs(ctx)
    where = mod.label

    def resolve(node):
        """callee expression -> FunctionDef in this module (or None if external/unknown)"""
        s = strip_ctx(node)
        if s is None:
            return None, None
        name, via = s
        if via in ('super', 'ctx.super'):
            return None, name
        return funcs.get(name), name

    def check_callee_takes(fn, name, extra_pos, kw_names, site):
        params = positional_params(fn)
        stats['callsites'] += 1
        if params[:npre] != pre:
            bad('CONV-prefix', f'{where}: {name} is defined with parameters {params}; under '
                               f'{"the context" if ctx else "the plain"} convention every parse function '
                               f'starts with {pre} ({site})')
            return
        rest = params[npre:]
        need = required_count(fn) - npre
        if fn.args.vararg is None and extra_pos > len(rest):
            bad('CONV-arity', f'{where}: {name}{tuple(params)} receives {extra_pos} extra positional '
                              f'argument(s) {site}')
        elif extra_pos + len([k for k in kw_names if k in rest[extra_pos:]]) < need:
            bad('CONV-arity', f'{where}: {name}{tuple(params)} is invoked with only {extra_pos} extra positional '
                              f'and keywords {list(kw_names)} but requires {need} beyond {pre} ({site})')
        for k in kw_names:
            if k not in rest and fn.args.kwarg is None:
                bad('CONV-arity', f'{where}: {name}{tuple(params)} receives unknown keyword {k!r} ({site})')
            elif k in rest[:extra_pos]:
                bad('CONV-arity', f'{where}: {name} receives {k!r} both positionally and by keyword ({site})')

    def check_value_as_parser(vnode, fn_env, site, depth=0):
        """a value that will later be *requested* (so the driver calls it with the prefix only)"""
        if isinstance(vnode, ast.Name) and vnode.id in ('_result', '_status', '_pos'):
            return      # a value parsed earlier (let-bound / field): supplied at run time
        if isinstance(vnode, ast.Name) and vnode.id in fn_env and depth < 4:
            for v in fn_env[vnode.id]:
                check_value_as_parser(v, fn_env, site, depth + 1)
            return
        if isinstance(vnode, ast.Call) and isinstance(vnode.func, ast.Name):
            f = vnode.func.id
            if f == '_ParseFunction':
                check_parse_function(vnode, fn_env, site)
                return
            if f in ('_wrap_string_literal', '_wrap_byte_literal') and len(vnode.args) == 2:
                check_value_as_parser(vnode.args[1], fn_env, site + f' via {f}', depth + 1)
                return
        fn, name = resolve(vnode)
        if fn is not None:
            check_callee_takes(fn, name, 0, [], site)

    def check_parse_function(call, fn_env, site):
        if len(call.args) != 3:
            bad('CONV-arity', f'{where}: _ParseFunction built with {len(call.args)} fields ({site})')
            return
        f, args, kwargs = call.args
        for fld, label in ((args, 'args'), (kwargs, 'kwargs')):
            if isinstance(fld, (ast.Dict, ast.List, ast.Set)):
                bad('CONV-hashable', f'{where}: _ParseFunction.{label} is a {type(fld).__name__.lower()} display '
                                     f'({ast.unparse(fld)}): the value is part of the memo key and must be '
                                     f'hashable ({site})')
        extra = len(args.elts) if isinstance(args, ast.Tuple) else None
        kws = []
        if isinstance(kwargs, ast.Tuple):
            for e in kwargs.elts:
                if isinstance(e, ast.Tuple) and len(e.elts) == 2 and isinstance(e.elts[0], ast.Constant):
                    kws.append(e.elts[0].value)
        fn, name = resolve(f)
        if fn is not None and extra is not None:
            check_callee_takes(fn, name, extra, kws, site + ' through _ParseFunction')
        # parser-valued arguments are themselves requested later with the prefix only
        if isinstance(args, ast.Tuple):
            for a in args.elts:
                if isinstance(a, ast.Name) and (a.id in fn_env or a.id in funcs):
                    vals = fn_env.get(a.id, [a])
                    for v in vals:
                        if isinstance(v, ast.Call) or (isinstance(v, ast.Name) and v.id in funcs):
                            check_value_as_parser(v, fn_env, site + f' (argument {a.id})')
        if isinstance(kwargs, ast.Tuple):
            for e in kwargs.elts:
                if isinstance(e, ast.Tuple) and len(e.elts) == 2:
                    a = e.elts[1]
                    if isinstance(a, ast.Name) and (a.id in fn_env or a.id in funcs):
                        for v in fn_env.get(a.id, [a]):
                            check_value_as_parser(v, fn_env, site + f' (keyword argument)')

    for fname, fn in funcs.items():
        env = local_assignments(fn)
        params = set(positional_params(fn))
        for callee, pos, y in requests_in(fn):
            site = f'request in {fname} (line {y.lineno})'
            if isinstance(callee, ast.Name) and callee.id in env:
                for v in env[callee.id]:
                    check_value_as_parser(v, env, site)
            elif isinstance(callee, ast.Name) and callee.id in params:
                stats['callsites'] += 1      # parameter: supplied by a caller, checked at the call site
            else:
                fn2, name = resolve(callee)
                if fn2 is not None:
                    check_callee_takes(fn2, name, 0, [], site)
                elif strip_ctx(callee) is None:
                    raise AnalysisError(f'{where}: request with callee {ast.unparse(callee)} in {fname} '
                                        f'is of no known form')
        # direct calls of emitted helper functions (spill path)
        for n in ast.walk(fn):
            if isinstance(n, ast.Call) and isinstance(n.func, ast.Name) and n.func.id in funcs \
                    and n.func.id.startswith('_parse_function_'):
                h = funcs[n.func.id]
                stats['callsites'] += 1
                hp = positional_params(h)
                if len(n.args) != len(hp) or any(isinstance(a, ast.Name) and a.id != p
                                                  for a, p in zip(n.args, hp)):
                    bad('CONV-arity', f'{where}: helper {h.name}{tuple(hp)} is called with '
                                      f'({", ".join(ast.unparse(a) for a in n.args)}) in {fname}')
                if is_generator(h):
                    bad('SPILL-kind', f'{where}: {fname} calls helper {h.name} directly and unpacks its result, '
                                      f'but the helper body suspends (it contains a request): the call returns '
                                      f'a generator object')
    # entry points
    for fname, fn in funcs.items():
        if fname.startswith('_parse_') and not fname.startswith('_parse_function_'):
            check_entry(fn, fname, mod, bad, funcs, stats)
    for cname, cls in mod.classes.items():
        for m in cls.body:
            if isinstance(m, ast.FunctionDef) and m.name == 'parse':
                check_entry(m, f'{cname}.parse', mod, bad, funcs, stats, cls=cls)


ENTRY_PARAMS = ['text', 'pos', 'fullparse']


def check_entry(fn, qual, mod, bad, funcs, stats, cls=None):
    ctx = mod.uses_context
    where = mod.label
    stats['entries'] += 1
    rt = runtime_defs(ctx)
    run = rt.get('_run')
    if not isinstance(run, ast.FunctionDef):
        raise AnalysisError('anchor _run vanished from the runtime template')
    run_params = positional_params(run)

    def check_sig(args, what):
        names = [a.arg for a in args.args]
        defaults = [ast.unparse(d) for d in args.defaults]
        if names != ENTRY_PARAMS or defaults != ['0', 'True']:
            bad('ENTRY-signature', f'{where}: {what} has parameters ({ast.unparse(args)}); every public entry '
                                   f'point takes (text, pos=0, fullparse=True) in both conventions')

    def check_run_call(call, what, impl_ok):
        if not (isinstance(call, ast.Call) and isinstance(call.func, ast.Name) and call.func.id == '_run'):
            bad('ENTRY-driver', f'{where}: {what} does not tail-call the driver (_run)')
            return
        got = [ast.unparse(a) for a in call.args]
        want_prefix = (['_ctx'] if ctx else []) + ['text', 'pos']
        if len(got) != len(run_params) or got[:len(want_prefix)] != want_prefix or got[-1] != 'fullparse':
            bad('ENTRY-driver', f'{where}: {what} calls _run({", ".join(got)}); the driver is '
                                f'_run({", ".join(run_params)})')
            return
        impl_ok(call.args[len(want_prefix)])

    rets = [n for n in fn.body if isinstance(n, ast.Return)]
    deco = [ast.unparse(d) for d in fn.decorator_list]
    if cls is not None and 'staticmethod' not in deco:
        # emitted as `@staticmethod` line followed by def: outsourcer writes it as a statement
        pass
    names = [a.arg for a in fn.args.args]
    if cls is not None and names and names != ENTRY_PARAMS:
        # parameterised class: parse(*params) returns the entry closure
        lam = rets[0].value if rets else None
        if not isinstance(lam, ast.Lambda):
            bad('ENTRY-signature', f'{where}: {qual}({", ".join(names)}) does not return an entry closure')
            return
        check_sig(lam.args, f'the closure returned by {qual}')
        env = local_assignments(fn)

        def impl_ok(node):
            vals = env.get(node.id, []) if isinstance(node, ast.Name) else [node]
            for v in vals:
                if isinstance(v, ast.Call) and isinstance(v.func, ast.Name) and v.func.id == '_ParseFunction':
                    f, args, kwargs = v.args
                    for fld, label in ((args, 'args'), (kwargs, 'kwargs')):
                        if isinstance(fld, (ast.Dict, ast.List, ast.Set)):
                            bad('CONV-hashable', f'{where}: {qual} builds _ParseFunction with {label}='
                                                 f'{ast.unparse(fld)}: the entry closure is the memo key of the '
                                                 f'start request and must be hashable')
                    tgt = strip_ctx(f)
                    fn2 = funcs.get(tgt[0]) if tgt else None
                    if fn2 is not None and isinstance(args, ast.Tuple):
                        need = required_count(fn2) - len(prefix_params(ctx))
                        if len(args.elts) != need:
                            bad('CONV-arity', f'{where}: {qual} passes {len(args.elts)} arguments to '
                                              f'{fn2.name}{tuple(positional_params(fn2))}')
        check_run_call(lam.body, f'the closure returned by {qual}', impl_ok)
        return
    check_sig(fn.args, qual)
    if len(rets) != 1:
        bad('ENTRY-driver', f'{where}: {qual} does not consist of one return')
        return

    def impl_ok(node):
        tgt = strip_ctx(node)
        if tgt is None:
            bad('ENTRY-driver', f'{where}: {qual} starts {ast.unparse(node)}')
            return
        name, via = tgt
        fn2 = funcs.get(name)
        if fn2 is None:
            bad('ENTRY-driver', f'{where}: {qual} starts {name}, which this module does not define')
            return
        if ctx and via != 'ctx' and cls is not None:
            pass
        need = required_count(fn2) - len(prefix_params(ctx))
        if need > 0:
            bad('ENTRY-params', f'{where}: {qual} starts {name}{tuple(positional_params(fn2))} without its '
                                f'{need} parameter(s): the entry point of a parameterised rule cannot work')
    check_run_call(rets[0].value, qual, impl_ok)


# --------------------------------------------------------------------------- wiring / free names
def context_wiring(mod, bad, stats):
    if not mod.uses_context:
        # plain convention: no context object may be mentioned at all
        for n in ast.walk(mod.tree):
            if isinstance(n, ast.Name) and n.id in ('_ctx', '_super_ctx'):
                bad('WIRE-plain', f'{mod.label}: plain-convention module mentions {n.id} (line {n.lineno})')
                break
        return
    assigned = {}
    for n in mod.tree.body:
        if isinstance(n, ast.Assign):
            for t in n.targets:
                if isinstance(t, ast.Attribute) and isinstance(t.value, ast.Name) and t.value.id == '_ctx':
                    assigned[t.attr] = n.value
    reads = {}
    sreads = {}
    for fname, fn in load.functions_of(mod.tree).items():
        for n in ast.walk(fn):
            if isinstance(n, ast.Attribute) and isinstance(n.ctx, ast.Load) and isinstance(n.value, ast.Name):
                if n.value.id == '_ctx':
                    reads.setdefault(n.attr, fname)
                elif n.value.id == '_super_ctx':
                    sreads.setdefault(n.attr, fname)
    # `super.R` is lexical: it must be rooted at the module-global _super_ctx, never at the
    # dynamic context (which is the most derived grammar's)
    for fname, fn in load.functions_of(mod.tree).items():
        for n in ast.walk(fn):
            if isinstance(n, ast.Attribute) and isinstance(n.value, ast.Attribute) \
                    and isinstance(n.value.value, ast.Name) and n.value.value.id == '_ctx' \
                    and n.value.attr == '_super_ctx':
                bad('SUPER-lexical', f'{mod.label}: {fname} reaches the parent through the dynamic context '
                                     f'(`{ast.unparse(n)}`): in a chain C extends B extends A, B\'s `super.R` '
                                     f'then denotes B\'s own definition (unbounded recursion) instead of A\'s')
                sreads.setdefault(n.attr, fname)
    # inherited code runs with the most derived context: everything an ancestor's functions read
    # through _ctx must be assigned on this module's context too
    anc = getattr(mod, 'parent', None)
    while anc is not None:
        for fname, fn in load.functions_of(anc.tree).items():
            for n in ast.walk(fn):
                if isinstance(n, ast.Attribute) and isinstance(n.ctx, ast.Load) and isinstance(n.value, ast.Name) \
                        and n.value.id == '_ctx' and n.attr not in assigned and n.attr != '_super_ctx':
                    bad('WIRE-inherited', f'{mod.label}: inherited function {fname} of {anc.label} reads '
                                          f'_ctx.{n.attr}, which this sub-grammar does not put on its context: '
                                          f'AttributeError when the inherited rule runs through the sub-grammar')
        anc = getattr(anc, 'parent', None)
    stats['ctx_reads'] += len(reads) + len(sreads)
    for a, fname in reads.items():
        if a not in assigned and a != '_super_ctx':
            bad('WIRE-ctx', f'{mod.label}: {fname} reads _ctx.{a}, which the module never assigns '
                            f'(assigned: {sorted(assigned)[:12]})')
    parent = getattr(mod, 'parent', None)
    if sreads:
        if parent is None:
            if not mod.sub:
                bad('WIRE-super', f'{mod.label}: reads _super_ctx.* but is not a sub-grammar')
        else:
            passigned = set()
            for n in parent.tree.body:
                if isinstance(n, ast.Assign):
                    for t in n.targets:
                        if isinstance(t, ast.Attribute) and isinstance(t.value, ast.Name) and t.value.id == '_ctx':
                            passigned.add(t.attr)
            for a, fname in sreads.items():
                if a not in passigned:
                    bad('WIRE-super', f'{mod.label}: {fname} reads _super_ctx.{a}, which the parent module never '
                                      f'assigns on its context (it assigns {sorted(passigned)})')
    # wiring statements themselves: the value must exist
    names = module_level_names(mod.tree)
    for a, v in assigned.items():
        if isinstance(v, ast.Name) and v.id not in names and v.id not in runtime_defs(True):
            bad('WIRE-ctx', f'{mod.label}: `_ctx.{a} = {v.id}` names something the module does not define')
        if isinstance(v, ast.Attribute) and isinstance(v.value, ast.Name) and v.value.id == '_super_ctx' \
                and parent is not None:
            passigned = {t.attr for n in parent.tree.body if isinstance(n, ast.Assign) for t in n.targets
                         if isinstance(t, ast.Attribute) and isinstance(t.value, ast.Name) and t.value.id == '_ctx'}
            if v.attr not in passigned:
                bad('WIRE-super', f'{mod.label}: `_ctx.{a} = _super_ctx.{v.attr}`: the parent context has no '
                                  f'{v.attr} (it has {sorted(passigned)})')
    # no store through the parent's context
    for n in ast.walk(mod.tree):
        if isinstance(n, (ast.Attribute, ast.Subscript)) and isinstance(n.ctx, (ast.Store, ast.Del)):
            r = n
            while isinstance(r, (ast.Attribute, ast.Subscript)):
                r = r.value
            if isinstance(r, ast.Name) and r.id == '_super_ctx':
                bad('WIRE-parent-readonly', f'{mod.label}: stores through the parent context ({ast.unparse(n)})')


def free_names(mod, bad, stats):
    """every global name the emitted module loads is defined by it, by the runtime, or is a builtin"""
    import symtable
    ctx = mod.uses_context
    defined = set(module_level_names(mod.tree))
    if mod.sub:
        # the prologue imports the runtime from the parent
        for n in mod.tree.body:
            if isinstance(n, ast.ImportFrom):
                for a in n.names:
                    defined.add(a.asname or a.name)
    st = symtable.symtable(mod.src, '<emitted>', 'exec')

    def walk(t):
        yield t
        for c in t.get_children():
            yield from walk(c)
    missing = {}
    for t in walk(st):
        for s in t.get_symbols():
            name = s.get_name()
            if t.get_type() == 'module':
                is_glob = s.is_referenced() and not s.is_assigned() and not s.is_imported() \
                    and not s.is_namespace() and not s.is_parameter()
            else:
                is_glob = s.is_global() and s.is_referenced()
            if is_glob and name not in defined and not hasattr(builtins, name):
                missing.setdefault(name, t.get_name())
    stats['globals'] += 1
    for name, scope in missing.items():
        bad('FREE-name', f'{mod.label}: {scope} reads the global name {name}, which neither the module, nor '
                         f'the runtime it carries/imports, nor builtins define')


# --------------------------------------------------------------------------- ignore distribution (C04)
def walk_objs(v, seen=None):
    """all interpreted objects reachable through attributes, lists and tuples"""
    if seen is None:
        seen = set()
    if isinstance(v, M.Obj):
        if id(v) in seen:
            return
        seen.add(id(v))
        yield v
        for x in v.d.values():
            yield from walk_objs(x, seen)
    elif isinstance(v, (list, tuple)):
        for x in v:
            yield from walk_objs(x, seen)


LITERALS = ('Str', 'Regex', 'Byte')


def ignore_distribution(R, bad, stats):
    """After generate_source_code has run on a grammar with ignore declarations every literal
    object (wherever it sits: ignored rules, template arguments incl. keyword arguments, class
    members) carries skip_ignored=True; without ignore declarations none does."""
    for label, build, kw in route_grammars(R):
        for name in (None, 'gmod'):
            body = build()
            e = R.emit(label, body, name=name)
            if not isinstance(e, modroute.Emitted):
                continue
            has_ignore = any(isinstance(r, M.Obj) and r.d.get('is_ignored') for r in body)
            lits = [o for o in walk_objs(body) if o.cls.name in LITERALS]
            stats['literals'] += len(lits)
            for o in lits:
                flag = o.d.get('skip_ignored')
                empty = o.cls.name == 'Str' and not o.d.get('value')
                if has_ignore and not flag:
                    bad('IGN-every-literal', f'{label}: literal {o} keeps skip_ignored={flag} although the grammar '
                                             f'declares ignore patterns: ignorable text after it is not skipped')
                if not has_ignore and flag:
                    bad('IGN-only-with-ignore', f'{label}: literal {o} has skip_ignored set in a grammar without '
                                                f'ignore declarations')
            for o in walk_objs(body):
                if o.cls.name not in LITERALS and 'skip_ignored' in o.d and o.d['skip_ignored']:
                    bad('IGN-only-literals', f'{label}: {o.cls.name} object carries skip_ignored')
