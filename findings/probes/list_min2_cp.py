from sourcer import Grammar
g = Grammar('start = "a"{2} | "ab"')
print(repr(g.parse('ab')))
