from sourcer import Grammar
for desc in ['start = []', 'start = "a" >> []', 'start = "a"? >> []', 'class Foo {}\nstart = Foo', 'start = ("a" | []) ', 'start = ExpectNot("a") >> [] ']:
    for text in ['', 'a', 'b']:
        try:
            g = Grammar(desc)
            print(repr(desc), repr(text), '->', repr(g.parse(text)))
        except Exception as e:
            print(repr(desc), repr(text), 'EXC', type(e).__name__, str(e)[:80].replace('\n',' '))
