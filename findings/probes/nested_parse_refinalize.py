from sourcer import Grammar
import sys
g = Grammar('''
```
def sub(s):
    return W.parse(s)
```
class W { v: /[a-z]+/ }
class Outer { a: /[a-z]+/ |> `sub`; b: "!" }
start = Outer
''')
try:
    r = g.parse('abc!'); print(r, r.a._metadata.position_info)
except Exception as e:
    print('ESCAPED', type(e).__name__, e); sys.exit(1)
