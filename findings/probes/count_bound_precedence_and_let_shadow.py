from sourcer import Grammar
def t(desc, text):
    try:
        g = Grammar(desc)
        print(repr(desc)[:90], '->', repr(g.parse(text)))
    except Exception as e:
        print(repr(desc)[:90], 'EXC', type(e).__name__, str(e)[:100])
t('start = let n = /\\d/ |> `int` in "a"{`n or 2`}', '0aa')
t('start = let n = /\\d/ |> `int` in "a"{`(n or 2)`}', '0aa')
t('start = let n = /\\d/ |> `int` in "a"{`0 if n else 2`}', '0aa')
t('start = let n = /\\d/ |> `int` in "a"{`(0 if n else 2)`}', '0aa')
t('start = let x = /\\d/ in [(let x = /\\d/ in `x`), `x`]', '12')
