"""Module-level emission routes: partial evaluation of translator.generate_source_code.

The translator is meta-evaluated (ast interpreter) on *grammar skeletons* built directly as
expression objects through the interpreted constructors - no grammar text is parsed, the
shipped parser is replaced by a stub that only provides the node classes the translator
tests with isinstance.  The result is the complete emitted module (rule functions, entry
points, error functions, context wiring) for one representative of each route
(plain rule, parameterised rule, class with/without parameters, ignore named/anonymous,
template call with each kind of argument, let, sub-grammar with overrides / super).
"""
import ast
import types

from .common import AnalysisError
from . import load
from . import metaeval as M


class StubParser:
    """stand-in for sourcer.parser: node classes only (fields as in grammar.txt)"""

    class _Node:
        _fields = ()

        def __init__(self, **kw):
            for k in self._fields:
                setattr(self, k, kw.pop(k, None))
            if kw:
                raise TypeError(f'unexpected fields {sorted(kw)}')

        def __repr__(self):
            return f'{type(self).__name__}(' + ', '.join(f'{k}={getattr(self, k)!r}' for k in self._fields) + ')'

    @staticmethod
    def transform(body, *callbacks):
        return body


def _mk_nodes():
    table = {
        'StringLiteral': ('value',), 'RegexLiteral': ('value',), 'PythonSection': ('value',),
        'PythonExpression': ('value',), 'RuleDef': ('is_override', 'is_ignored', 'name', 'params', 'expr'),
        'ClassDef': ('name', 'params', 'members'), 'ClassField': ('is_omitted', 'name', 'expr'),
        'ClassRequirement': ('expr',), 'OmittedClassMember': ('expr',), 'IgnoreStmt': ('expr',),
        'GrammarDef': ('head', 'body'), 'GrammarHead': ('name', 'extends'),
        'LetExpression': ('name', 'expr', 'body'), 'Ref': ('value',), 'ListLiteral': ('elements',),
        'ByteLiteral': ('prefix', 'value'), 'KeywordArg': ('name', 'expr'), 'ArgList': ('args',),
        'FieldAccess': ('field',), 'Repeat': ('open', 'start', 'stop', 'close'),
        'OperatorTable': ('rows',), 'OperatorRow': ('associativity', 'operators', 'tail'),
        'Infix': ('left', 'operator', 'right'), 'Postfix': ('left', 'operator'), 'Prefix': ('operator', 'right'),
    }
    for name, fields in table.items():
        setattr(StubParser, name, type(name, (StubParser._Node,), {'_fields': fields}))
    return table


NODE_FIELDS = _mk_nodes()


def parser_node_fields():
    """field tables of the node classes as the shipped parser defines them (read from its AST);
    the stub above must agree, otherwise the routes would model a different metagrammar"""
    tree = load.parse('sourcer/parser.py')
    out = {}
    for n in tree.body:
        if isinstance(n, ast.ClassDef):
            for st in n.body:
                if isinstance(st, ast.Assign) and any(isinstance(t, ast.Name) and t.id == '_fields' for t in st.targets):
                    try:
                        out[n.name] = tuple(ast.literal_eval(st.value))
                    except Exception:
                        pass
    return out


class Emitted:
    def __init__(self, label, src, uses_context, sub, builder):
        self.label, self.src, self.uses_context, self.sub = label, src, uses_context, sub
        self.builder = builder
        try:
            self.tree = ast.parse(src)
        except SyntaxError as e:
            raise AnalysisError(f'route {label}: emitted module is not valid Python: {e}')
        self.functions = load.functions_of(self.tree)
        self.classes = load.classes_of(self.tree)


class Routes:
    def __init__(self):
        self.prog, self.it = M.fresh_program({'sourcer.parser': StubParser})
        self.OS = load.load_outsourcer()
        self.tr = self.prog.load('sourcer.translator')
        self.ex = self.prog.load('sourcer.expressions')
        if 'generate_source_code' not in self.tr.env:
            raise AnalysisError('anchor translator.generate_source_code vanished')
        have = parser_node_fields()
        for name, fields in NODE_FIELDS.items():
            if name in have and tuple(have[name]) != tuple(fields):
                raise AnalysisError(f'metagrammar node {name} has fields {have[name]}, the route stub was '
                                    f'written for {fields}')

    # ---- expression constructors (through the interpreted __init__)
    def new(self, cls, *a, **k):
        if cls not in self.ex.env:
            raise AnalysisError(f'anchor expressions.{cls} vanished')
        return self.it.call(self.ex.env[cls], list(a), k)

    def Str(self, v): return self.new('Str', v)
    def Regex(self, p, **k): return self.new('Regex', p, **k)
    def Byte(self, v): return self.new('Byte', v)
    def Ref(self, n): return self.new('Ref', n)
    def Py(self, s): return self.new('PythonExpression', s)
    def Seq(self, *e, **k): return self.new('Seq', *e, **k)
    def Choice(self, *e): return self.new('Choice', *e)
    def Right(self, a, b): return self.new('Discard', a, b, discard_left=True)
    def Left(self, a, b): return self.new('Discard', a, b, discard_left=False)
    def Opt(self, e): return self.new('Opt', e)
    def List(self, e, **k): return self.new('List', e, **k)
    def Let(self, n, e, b): return self.new('Let', n, e, b)
    def Where(self, e, p): return self.new('Where', e, p)
    def Call(self, f, args): return self.new('Call', f, args)
    def Kw(self, n, e): return self.new('KeywordArg', n, e)
    def Rule(self, name, expr, params=None, ignored=False, omitted=False):
        return self.new('Rule', name, params, expr, is_ignored=ignored, is_omitted=omitted)
    def Class(self, name, members, params=None): return self.new('Class', name, params, members)
    def Super(self, name):
        r = self.Ref(f'super.{name}')
        impl = self.it.call(self.ex.env['implementation_name'], [name], {})
        r.d['_resolved'] = f'_super_ctx.{impl}'
        return r
    def PySection(self, s): return self.new('PythonSection', s)

    def parsed(self, body, name=None, extends=None):
        return types.SimpleNamespace(name=name, extends=extends, body=body)

    def parent(self, name, body_nodes, extends=None):
        """an ancestor as translator sees it: un-transformed parser nodes"""
        return types.SimpleNamespace(name=name, extends=extends, body=body_nodes)

    def emit(self, label, body, name=None, extends=None):
        p = self.parsed(body, name, extends)
        # log every temporary the builder hands out while this module is emitted
        allocations = []
        CB = self.OS.CodeBuilder
        orig = CB._reserve_name

        def logged(builder, base_name):
            r = orig(builder, base_name)
            allocations.append(str(r))
            return r
        CB._reserve_name = logged
        try:
            out = self.it.call(self.tr.env['generate_source_code'], ['# Grammar definition:\n(route)', p], {})
        except M.MetaRaise as e:
            return e
        except RecursionError:
            return M.MetaRaise(RecursionError('the translator recurses without bound on this grammar'),
                               'sourcer/expressions (argumentize/functionalize)')
        finally:
            CB._reserve_name = orig
        em = Emitted(label, out.source_code(), name is not None, extends is not None, out)
        em.allocations = allocations
        return em


def node(kind, **kw):
    return getattr(StubParser, kind)(**kw)
