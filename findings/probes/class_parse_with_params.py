from sourcer import Grammar
import sys
bad = 0
for head in ('', 'grammar probe_f3\n'):
    try:
        g = Grammar(head + 'class P(n) { v: "x"{n} }\nstart = P(2)')
        print(repr(head), g.P.parse(3)('xxx'), g.parse('xx'))
    except Exception as e:
        print(repr(head), 'ESCAPED', type(e).__name__, e); bad += 1
sys.exit(1 if bad else 0)
