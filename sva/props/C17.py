"""C17 - nesting depth: spill helpers (effect "may suspend"), explicit-stack recursion."""
import ast

from ..common import Finding, AnalysisError
from .. import load, routes, modroute


def call_graph_cycles(rep):
    """the driver, visit, traverse and the span conversion never recurse (depth is limited by
    memory, not by the Python stack)"""
    for what, tree, rel in routes.runtime_subjects():
        fns = {n.name: n for n in tree.body if isinstance(n, ast.FunctionDef)}
        calls = {}
        for name, fn in fns.items():
            calls[name] = {n.func.id for n in ast.walk(fn) if isinstance(n, ast.Call)
                           and isinstance(n.func, ast.Name) and n.func.id in fns}
        for root in ('_run', 'visit', 'traverse', '_finalize_parse_info', '_map_index_to_line_and_column'):
            if root not in fns:
                raise AnalysisError(f'{what}: anchor {root} vanished')
            seen, stack = set(), list(calls[root])
            cyc = False
            while stack:
                x = stack.pop()
                if x == root:
                    cyc = True
                    break
                if x in seen:
                    continue
                seen.add(x)
                stack += list(calls.get(x, ()))
            rep.count('runtime functions checked for recursion')
            rep.oblige(not cyc)
            if cyc:
                rep.add(Finding('NO-recursion', f'{rel}:{root}', '', f'{what}: {root} is on a call-graph cycle: '
                                f'deep input or deep results exhaust the Python stack', f'{rel}:{root}'))


def driver_step_cost(rep):
    """depth is limited by memory only: one step of the driver loop costs the same whatever the number of suspended
    rules - the loop body never iterates over (or searches) its own stack, which would make every rule call cost
    time proportional to the current depth (quadratic in the nesting of the input)"""
    from .. import trampoline
    for what, tree, rel in routes.runtime_subjects():
        name, fn, call = trampoline.find_trampoline(tree, what)
        loops = [n for n in ast.walk(fn) if isinstance(n, ast.While)]
        # the stack: the list whose last element's generator is resumed / that is appended to and popped
        stacks = {n.func.value.id for l in loops for n in ast.walk(l) if isinstance(n, ast.Call)
                  and isinstance(n.func, ast.Attribute) and n.func.attr in ('append', 'pop')
                  and isinstance(n.func.value, ast.Name)}
        rep.count('driver loops examined for per-step cost', len(loops))
        for l in loops:
            for n in ast.walk(l):
                its = []
                if isinstance(n, ast.For):
                    its.append(n.iter)
                if isinstance(n, ast.comprehension):
                    its.append(n.iter)
                if isinstance(n, ast.Compare) and any(isinstance(o, (ast.In, ast.NotIn)) for o in n.ops):
                    its += [c for c in n.comparators]
                if isinstance(n, ast.Call) and isinstance(n.func, ast.Attribute) and n.func.attr in ('index', 'count'):
                    its.append(n.func.value)
                for it in its:
                    hit = [x.id for x in ast.walk(it) if isinstance(x, ast.Name) and x.id in stacks]
                    rep.oblige(not hit)
                    if hit:
                        rep.add(Finding('DRIVER-step-constant', f'{rel}:{name}', '',
                                        f'{what}: the driver loop walks its own stack `{hit[0]}` on a step '
                                        f'(`{ast.unparse(n)[:70]}`): every rule call costs time proportional to the number '
                                        f'of suspended rules, so parse time grows with the square of the nesting depth - '
                                        f'depth is no longer limited by memory only', f'{rel}:{name}'))


def implicit_recursion(rep):
    """hashing and comparing parsed objects is structural, hence recursive over the whole subtree:
    the iterative walkers (which every successful parse runs over its result) may put only id()s
    into sets / dict keys and may not compare nodes by value"""
    from .. import walkers
    for what, tree, rel in routes.runtime_subjects():
        fns = load.functions_of(tree)
        found = []
        bad = lambda r, m: found.append((r, m))
        for name, chk in (('visit', walkers.check_visit), ('traverse', walkers.check_traverse)):
            if name not in fns:
                raise AnalysisError(f'{what}: anchor {name} vanished')
            chk(fns[name], f'{what}:{name}', bad)
            rep.count('walkers checked for hashing / comparing nodes by value')
        for r, m in found:
            if r == 'C15-dedup-identity':
                rep.add(Finding('NO-recursion', f'{rel}:walkers', 'structural-hash',
                                m + ' - hashing or comparing a parsed object walks its whole subtree recursively '
                                    '(value-based __hash__/__eq__): results nested a few hundred classes deep '
                                    'raise RecursionError at the end of every parse', f'{rel}'))


def rule_calls_are_requests(rep, rule='NO-recursion'):
    """rule recursion uses the explicit stack: no emitted rule function calls an implementation
    function directly"""
    R, mods = routes.emitted_modules()
    n = 0
    for m in mods:
        if not isinstance(m, modroute.Emitted):
            continue
        funcs = routes.functions_top(m.tree)
        for fname, fn in funcs.items():
            if not fname.startswith(('_try_', routes.helper_prefix())):
                continue
            for node in ast.walk(fn):
                if isinstance(node, ast.Call):
                    s = routes.strip_ctx(node.func)
                    if s and s[0].startswith('_try_'):
                        why = ('recursion through rules would use the Python stack' if rule == 'NO-recursion' else
                               'the body of the called rule runs inside the caller\'s frame, its result is stored '
                               'only under the caller\'s key and the rule is evaluated again by every other '
                               'reference at that position')
                        rep.add(Finding(rule, 'emitted-module', m.label.split('[')[0],
                                        f'{m.label}: {fname} calls {ast.unparse(node.func)} directly instead of '
                                        f'yielding a request: {why}',
                                        'sourcer/expressions (Rule/Ref/Call emission)'))
            n += 1
    rep.count('emitted rule functions scanned for direct rule calls', n)
    rep.oblige(True, n)


def block_budget_note(rep):
    """num_blocks declared per class vs. nesting actually emitted (information only)"""
    from .. import skeleton as SK
    w = SK.World()
    for name, c in sorted(w.classes().items()):
        pass


def run(rep, tier):
    rep.explanation = (
        'The route `deep-nesting` (25 nested transparent layers around a rule reference, an '
        'ignore-skipping literal, a template call and a let-bound name; both conventions) makes the '
        'generator split code into helper functions. Effect rule "may suspend": a helper whose body '
        'contains a request must be a generator and be delegated to with `yield from`, returning the '
        'register triple; a helper called like a plain function must not suspend; the caller assigns '
        'the triple to the registers and nothing else (transparency); helpers receive the convention '
        'prefix and every name their body reads (free-name closure inside helpers). Rule recursion '
        'goes through requests only, and the driver, visit, traverse and the span conversion are free '
        'of call-graph cycles.')
    rep.not_decided += ['actual memory limits', "CPython's own nesting limits (the block budget is a heuristic of "
                                               "outsourcer)"]
    for rid, txt in [
        ('SPILL-kind', 'helper kind (generator / plain) fits the way it is invoked; result assigned to the registers'),
        ('CONV-arity', 'helpers are called with exactly their parameters'),
        ('FREE-name', 'a helper receives every name its body reads'),
        ('LOCAL-shadow', 'a helper split off a rule function is handed the names bound in that function that it uses '
                         '(it does not fall back on rules of the same name)'),
        ('WIRE-ctx-param', 'in the context convention a rule function or helper that mentions _ctx receives it '
                           'as a parameter (the module global is the defining grammar, not the one being parsed)'),
        ('NO-recursion', 'no direct rule calls; driver and walkers are cycle-free'),
        ('DRIVER-step-constant', 'a step of the driver loop never iterates over or searches its own stack'),
        ('ROUTE-raises', 'the deep-nesting route compiles'),
    ]:
        rep.rule(rid, txt)
    found, stats, nmods = routes.run(rep, 'C17', ['SPILL-', 'CONV-', 'FREE-name', 'WIRE-ctx-param', 'LOCAL-shadow'],
                                     label_filter=lambda msg: msg.startswith('deep-nesting'))
    rep.floor('route modules emitted', nmods, 32)
    rep.count('spill helper invocations examined', stats.get('spills', 0))
    rep.floor('spill helper invocations examined', stats.get('spills', 0), 2)
    call_graph_cycles(rep)
    driver_step_cost(rep)
    implicit_recursion(rep)
    rule_calls_are_requests(rep)
    from .. import controls
    controls.route_controls(rep)
