"""KNOWN finding (C05): a `let` nested in the body of a `let` of the same name overwrites the outer
value for the rest of the outer body (both are the same Python local).  Expected ['2', '1']."""
from sourcer import Grammar
g = Grammar('start = let x = /\\d/ in [(let x = /\\d/ in `x`), `x`]')
r = g.parse('12')
print(r)
raise SystemExit(0 if r == ['2', '1'] else 1)
