from sourcer import Grammar
import sys
bad = 0
for head in ('', 'grammar probe_f4\n'):
    for body, text, want in [
        ('T(p) = p << "!"\nA1(r) = T([r, "x"])\nstart = A1("a")', 'ax!', "['a', 'x']"),
        ('T(p) = p << "!"\nB2(r, s) = T([r, s])\nstart = B2("a", "b")', 'ab!', "['a', 'b']"),
        ('T(p) = p << "!"\nC3(r, s, t) = T([r, s, t])\nstart = C3("a", "b", "c")', 'abc!', "['a', 'b', 'c']"),
        ('T(p) = p << "!"\nZ = T(["a", "b"])\nstart = Z', 'ab!', "['a', 'b']"),
    ]:
        try:
            g = Grammar(head + body)
            r = repr(g.parse(text))
            ok = r == want
            print(repr(head), body.split('\n')[1], '->', r, 'ok' if ok else 'WRONG'); bad += not ok
        except Exception as e:
            print(repr(head), body.split('\n')[1], 'ESCAPED', type(e).__name__, str(e)[:80]); bad += 1
sys.exit(1 if bad else 0)
