"""C02 - operator tables: structural clauses (a) tag-table agreement, (b) where the
expression may end, (c) end-of-expression restores are terminal; plus G1-G3."""
from .. import e1run
from . import shared

CLASSES = ['OperatorTable', 'Longest', 'Apply']
FLOORS = {'OperatorTable': 150, 'Longest': 160, 'Apply': 36}


def run(rep, tier):
    rep.explanation = (
        'OperatorTable._compile is partially evaluated for every shape (prefixes/postfixes/infixes '
        'present or not) x child flag states x both conventions; the provenance analysis of the '
        'emitted shunting-yard loop decides that the table can only end after an operand or postfix '
        'operator, that a failed attempt leaves no trace (G1), that the flags are sound (G2), and '
        'that after the position saved before a consumed operator is restored no further child is '
        'started. The associativity ids produced by OperatorTable.create are compared with the '
        'constants tested in the emitted loop by evaluating the emitted decision formula over all '
        '(precedence order x associativity id) cases. Longest (row combination) and Apply (tagging) '
        'get the generic and table rules.')
    rep.not_decided += ['that shunting-yard yields the unique precedence tree for arbitrary token '
                        'sequences (algorithmic correctness over unbounded stacks)']
    rep.assumptions += ['children obey their summaries (induction hypothesis)',
                        'operator expressions do not always succeed (well-formedness)']
    shared.describe_rules(rep)
    total = e1run.run(rep, CLASSES, tier, select=lambda f: f['rule'] not in ('S-span', 'S-binder'))
    for K, want in FLOORS.items():
        rep.floor(f'configurations of {K}', total.get(K, 0), want)
    from .. import optable
    optable.tag_agreement(rep)
    optable.postfix_reduction(rep)
    optable.row_levels(rep, tier)
    optable.longest_ties(rep)
    from .. import controls
    controls.e1_controls(rep)
