from sourcer import Grammar
import sys
bad = 0
for head in ('', 'grammar probe_f10\n'):
  for ign in ('', '\nignore " "'):
    for depth in (5, 12, 18, 25, 40):
        desc = head + 'start = ' + '[' * depth + 'X, "y"' + ']' * depth + '\nX = "x"' + ign
        want = ['x', 'y']
        for _ in range(depth - 1): want = [want]
        try:
            g = Grammar(desc)
            r = g.parse('xy')
            ok = r == want
        except Exception as e:
            ok = False; r = f'{type(e).__name__}: {str(e)[:60]}'
        if not ok: bad += 1; print(repr(head), repr(ign), depth, 'FAIL', r)
print('bad', bad); sys.exit(1 if bad else 0)
