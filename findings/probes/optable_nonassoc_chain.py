from sourcer import Grammar
g = Grammar('''start = /\\d/ between {
  prefix: "-"
  infix: "-"
}''')
for t in ['1-2', '1-2-3']:
    try: print(t, repr(g.parse(t)))
    except Exception as e: print(t, type(e).__name__, getattr(e,'last_position',None), repr(getattr(e,'partial_result',None)))
