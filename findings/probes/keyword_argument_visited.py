from sourcer import Grammar
import sys
try:
    g = Grammar('T(p) = p >> "!"\nstart = T(p="k") | T(p=X)\nX = "x"\nignore " "')
    print(g.parse('k !'), g.parse('x !'))
except Exception as e:
    print('ESCAPED', type(e).__name__, e); sys.exit(1)
