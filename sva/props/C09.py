"""C09 - error locations: excerpt arithmetic, line/column tables, error functions, farthest failure."""
import ast

from ..common import Finding, AnalysisError
from .. import load, routes, finalize


def run(rep, tier):
    rep.explanation = (
        '(a) _extract_excerpt: every return of the text branch is decomposed into prefix + text[a:b] + '
        'suffix + _caret_at(k); under the preconditions col >= 1, line start = pos-(col-1) >= 0, '
        'pos < end <= len(text) (end = next line break) and the branch conditions of the path, the '
        'obligations start <= a <= pos < b <= end and k = (pos - a) + len(prefix) are discharged by '
        'Fourier-Motzkin entailment over affine forms; any length-changing transformation of the slice '
        'is a violation. (b) _map_index_to_line_and_column: transformer from (1, 0), line break -> '
        '(line+1, 0), other -> (line, col+1), one entry per character per table, line table first; '
        '_get_line_and_column reads both tables at pos. (c) generated error functions: (None, None) '
        'exactly under len(text) <= pos, else line/col of the failure position; ParseError(message, '
        'pos, line, col). (d) farthest-failure selection in Choice: evaluated over all weak orderings '
        'of the options\' failure positions.')
    rep.not_decided += ['"never beyond the first character no token can match" as a statement about a '
                        'grammar\'s token set', 'message wording']
    rep.assumptions += ['text[pos] is not a line break (excluded by the property)',
                        'recorded positions satisfy 0 <= pos < len(text) when an excerpt is built']
    for rid, txt in [
        ('EXCERPT-bounds', 'line start <= slice start <= pos < slice end <= line end, for every regime'),
        ('EXCERPT-caret', 'caret offset = (pos - slice start) + len(prefix); _caret_at shape; no trimming'),
        ('LINECOL-map', 'line/column tables: (1,0) start; "\\n" -> (line+1, 0); other -> (line, col+1); '
                        'one entry per character; line table first'),
        ('ERR-position', 'error functions: (None, None) iff len(text) <= pos; else line/col of pos; index = pos'),
        ('FARTHEST', 'Choice reports the farthest failure position, first option winning ties'),
        ('FINALIZE-exits', 'PartialParseError.last_position is built from the position where the match ended (index, and the '
                           'table entries at that index) - not from a position moved afterwards'),
        ('TABLE-per-call', 'the line/column tables are computed from the text of the call, not taken from a store '
                           'that outlives it'),
    ]:
        rep.rule(rid, txt)
    nob = 0
    for what, tree, rel in routes.runtime_subjects():
        fns = load.functions_of(tree)
        found = []
        bad = lambda rule, msg: found.append((rule, msg))
        a, regimes = finalize.excerpt_rules(fns, what, bad)
        b = finalize.linecol_rules(fns, what, bad)
        c = finalize.finalize_rules(fns, what, bad)
        nob += a + b
        rep.count('runtime copies analysed')
        rep.count('excerpt regimes (return paths) examined', regimes)
        rep.obligations += a + b
        rep.discharged += a + b - len([1 for r, _ in found if r in ('EXCERPT-bounds', 'EXCERPT-caret', 'LINECOL-map')])
        for rule, msg in found:
            if rule in ('EXCERPT-bounds', 'EXCERPT-caret', 'LINECOL-map', 'TABLE-per-call', 'FINALIZE-exits'):
                rep.add(Finding(rule, f'{rel}:runtime', '', msg, f'{rel} ({what})'))
    rep.count('arithmetic obligations', nob)
    rep.floor('runtime copies analysed', rep.instances.get('runtime copies analysed', 0), 3)
    rep.floor('excerpt regimes (return paths) examined', rep.instances.get('excerpt regimes (return paths) examined', 0), 12)
    found, stats, nmods = routes.run(rep, 'C09', ['ERR-'])
    rep.floor('error functions examined', stats['error_functions'], 100)
    from .. import farthest
    farthest.choice_farthest(rep, tier)
    # a failing negative lookahead reports where it stood, not the end of the forbidden text it found (its
    # failure is what the user sees when it lies on a mandatory path): position of the failure exits of
    # Expect / ExpectNot / Where / Backtrack
    from .. import e1run
    rep.rule('S-flow', 'Expect / ExpectNot / Where / Backtrack: the failure exit leaves the position where the expression '
                       'started (the error is reported there, never beyond the first character that cannot match)')
    te = e1run.run(rep, ['Expect', 'ExpectNot', 'Where', 'Backtrack'], tier,
                   select=lambda f: f['rule'] in ('S-flow', 'G1-no-trace'))
    rep.floor('configurations of ExpectNot', te.get('ExpectNot', 0), 4)
    from .. import controls
    controls.affine_controls(rep)
