"""MetaEval: an interpreter for the Python subset used by sourcer's code generator.

It walks `ast` nodes of files read from the repository (nothing of /repo is imported
or executed by CPython).  Values are plain Python objects for data, `Obj` for
instances of interpreted classes, and *real* `outsourcer.Code/CodeBuilder` objects for
emitted code, so the text of every emitted skeleton is rendered by the real renderer.

Children of the expression under analysis are `AbsChild` values that answer only the
observations a parent may make (always_succeeds, can_partially_succeed, isinstance
of a class, str(), constantize, compile -> marker statement).
"""
import ast
import builtins as _b
import operator as _op
import os

from .common import AnalysisError, Unsupported, REPO
from . import load


class MetaRaise(Exception):
    """An exception raised *by the interpreted program* (carries the real exception)."""

    def __init__(self, exc, where=''):
        Exception.__init__(self, f'{type(exc).__name__}: {exc} [{where}]')
        self.exc = exc
        self.where = where


class BreakSig(Exception):
    pass


class ContinueSig(Exception):
    pass


class ReturnSig(Exception):
    def __init__(self, v):
        self.v = v


class Module:
    def __init__(self, name, rel, tree, prog):
        self.name, self.rel, self.tree, self.prog = name, rel, tree, prog
        self.env = {}
        self.package = name.rsplit('.', 1)[0] if not rel.endswith('__init__.py') else name

    def __repr__(self):
        return f'<meta module {self.name}>'


class Func:
    def __init__(self, node, env, module, cls=None, decos=()):
        self.node, self.env, self.module, self.cls = node, env, module, cls
        self.name = node.name
        self.is_cm = 'contextmanager' in decos
        self.is_gen = any(isinstance(n, (ast.Yield, ast.YieldFrom)) for n in _own_nodes(node))

    @property
    def __name__(self):
        return self.name

    def __repr__(self):
        return f'<meta function {self.module.name}.{self.name}>'


def _own_nodes(fn):
    """nodes of a function body excluding nested function/class/lambda bodies"""
    stack = list(fn.body)
    while stack:
        n = stack.pop()
        yield n
        for c in ast.iter_child_nodes(n):
            if isinstance(c, (ast.FunctionDef, ast.AsyncFunctionDef, ast.ClassDef, ast.Lambda)):
                continue
            stack.append(c)


class Cls:
    def __init__(self, name, bases, attrs, module):
        self.name, self.bases, self.attrs, self.module = name, bases, attrs, module

    @property
    def __name__(self):
        return self.name

    def mro(self):
        out = [self]
        for b in self.bases:
            if isinstance(b, Cls):
                for c in b.mro():
                    if c not in out:
                        out.append(c)
        return out

    def lookup(self, name):
        for c in self.mro():
            if name in c.attrs:
                return c.attrs[name]
        raise AttributeError(name)

    def has(self, name):
        try:
            self.lookup(name)
            return True
        except AttributeError:
            return False

    def __repr__(self):
        return f'<meta class {self.name}>'


class Obj:
    """Instance of an interpreted class.  str()/repr() call back into the interpreter
    so that real builtins (join, format, sorted) work on it."""

    def __init__(self, cls):
        object.__setattr__(self, 'cls', cls)
        object.__setattr__(self, 'd', {})

    def __getattr__(self, name):          # only reached for python-level access
        try:
            return INTERP.getattr(self, name)
        except MetaRaise as e:
            if isinstance(e.exc, AttributeError):
                raise AttributeError(name)
            raise

    def __setattr__(self, name, value):
        self.d[name] = value

    def _call(self, meth, *args):
        return INTERP.call(INTERP.getattr(self, meth), list(args), {})

    def __str__(self):
        if self.cls.has('__str__'):
            return self._call('__str__')
        return f'<{self.cls.name} object>'

    def __repr__(self):
        if self.cls.has('__repr__'):
            return self._call('__repr__')
        return f'<{self.cls.name} object>'

    def __format__(self, spec):
        return format(str(self), spec)


class Bound:
    def __init__(self, func, selfv):
        self.func, self.selfv = func, selfv

    @property
    def __name__(self):
        return self.func.name


class PropertyV:
    def __init__(self, func):
        self.func = func


class ClassMethodV:
    def __init__(self, func):
        self.func = func


class StaticMethodV:
    def __init__(self, func):
        self.func = func


class Env:
    __slots__ = ('parent', 'd', 'nonlocals', 'globals_')

    def __init__(self, parent):
        self.parent, self.d = parent, {}
        self.nonlocals = set()
        self.globals_ = set()

    def get(self, k):
        e = self
        while isinstance(e, Env):
            if k in e.d:
                return e.d[k]
            e = e.parent
        return e[k]

    def set(self, k, v):
        if k in self.nonlocals:
            e = self.parent
            while isinstance(e, Env):
                if k in e.d:
                    e.d[k] = v
                    return
                e = e.parent
            raise Unsupported(f'nonlocal {k} not found')
        if k in self.globals_:
            e = self
            while isinstance(e, Env):
                e = e.parent
            e[k] = v
            return
        self.d[k] = v

    def delete(self, k):
        del self.d[k]


class AbsChild:
    """Abstract child expression standing for *all* expressions with the given
    observations.  Any observation outside the whitelist is `Unsupported`."""
    defines_local = False
    has_params = False
    is_reference = False
    is_commented = True
    is_tagged = True
    is_ignored = False
    params = None
    num_blocks = 1
    _ALLOWED = ()

    def __init__(self, label, AS=False, CP=True, kind=None, const=None, may_yield=True):
        self.label, self.AS, self.CP, self.kind = label, AS, CP, kind
        self.const = const
        self.program_id = None
        self.compiled = 0
        self.may_yield = may_yield

    def always_succeeds(self):
        return self.AS

    def can_partially_succeed(self):
        return self.CP

    def precompile(self, out):
        pass

    def compile(self, out, flags):
        OS = load.load_outsourcer()
        self.compiled += 1
        out.append(OS.Code(f"(_status, _result, _pos) = __CHILD__({self.label!r}, _pos)"))

    def operand_string(self):
        return f'<{self.label}>'

    def constantize(self):
        return self.const

    def complain(self):
        return f'<complaint of {self.label}>'

    def error_func(self):
        OS = load.load_outsourcer()
        return OS.Code(f'_raise_error_{self.label}')

    def freevars(self):
        return set()

    def __str__(self):
        return f'<{self.label}>'

    def __repr__(self):
        return f'<AbsChild {self.label} AS={self.AS} CP={self.CP} kind={self.kind}>'

    def __getattr__(self, name):
        if name.startswith('__'):
            raise AttributeError(name)
        raise Unsupported(f'abstract child observed through unknown attribute .{name}')


_STDLIB_OK = {'contextlib', 'collections', 'typing', 're', 'ast', 'string', 'importlib',
              'sys', 'types', 'itertools', 'functools', 'textwrap', 'keyword', 'builtins', 'operator',
              'enum', 'dataclasses', 'abc', 'numbers', 'math', 'copy', 'warnings'}

SAFE_BUILTINS = {k: getattr(_b, k) for k in (
    'len isinstance issubclass zip enumerate set frozenset list tuple str repr any all int hex '
    'sorted getattr hasattr setattr range bool dict type Exception TypeError ValueError '
    'KeyError AttributeError IndexError RuntimeError NotImplementedError AssertionError '
    'StopIteration bytes max min sum abs reversed iter next map filter id callable '
    'object format ord chr print eval float divmod round NameError LookupError '
    'ModuleNotFoundError ImportError property staticmethod classmethod super').split()}


class Program:
    """A set of interpreted modules rooted at the repository."""

    def __init__(self, overrides=None):
        self.modules = {}
        self.overrides = dict(overrides or {})
        self.steps = 0

    def rel_of(self, name):
        base = os.path.join(REPO, *name.split('.'))
        if os.path.isdir(base):
            return os.path.relpath(os.path.join(base, '__init__.py'), REPO)
        return os.path.relpath(base + '.py', REPO)

    def load(self, name):
        if name in self.overrides:
            return self.overrides[name]
        if name in self.modules:
            return self.modules[name]
        rel = self.rel_of(name)
        tree = load.parse(rel)
        m = Module(name, rel, tree, self)
        self.modules[name] = m
        Interp(self).exec_module(m)
        return m

    def cls(self, modname, clsname):
        m = self.load(modname)
        if clsname not in m.env:
            raise AnalysisError(f'anchor class {clsname} not found in {modname}')
        return m.env[clsname]


class CM:
    """@contextmanager generator function of the repo, driven by the interpreter."""

    def __init__(self, it, f, args, kwargs):
        self.g = it.run_func(f, args, kwargs)
        self.name = f.name

    def __enter__(self):
        try:
            return next(self.g)
        except StopIteration:
            raise Unsupported(f'contextmanager {self.name} did not yield')

    def __exit__(self, et, ev, tb):
        if et is not None and not issubclass(et, (BreakSig, ContinueSig, ReturnSig)):
            return False
        try:
            next(self.g)
        except StopIteration:
            return False
        raise Unsupported(f'contextmanager {self.name} yielded twice')


class Interp:
    MAX_STEPS = 5_000_000

    def __init__(self, prog):
        self.prog = prog

    def where(self, node, module):
        return f'{module.rel}:{getattr(node, "lineno", "?")}'

    # ---- module level
    def exec_module(self, m):
        env = m.env
        env['__name__'] = m.name
        self.mod = m
        for _ in self.block(m.tree.body, env, m):
            raise Unsupported(f'yield at module level in {m.rel}')

    def do_import(self, st, env, m):
        if isinstance(st, ast.Import):
            for a in st.names:
                top = a.name.split('.')[0]
                if top not in _STDLIB_OK:
                    raise Unsupported(f'import {a.name} at {self.where(st, m)}')
                mod = __import__(a.name)
                if a.asname:
                    import importlib
                    mod = importlib.import_module(a.name)
                self.bind(env, a.asname or top, mod)
            return
        if st.level == 0:
            if st.module == 'outsourcer':
                src = load.load_outsourcer()
            elif st.module.split('.')[0] in _STDLIB_OK:
                import importlib
                src = importlib.import_module(st.module)
            else:
                raise Unsupported(f'from {st.module} import at {self.where(st, m)}')
            for a in st.names:
                self.bind(env, a.asname or a.name, getattr(src, a.name))
            return
        pkg = m.package.split('.')
        if st.level > 1:
            pkg = pkg[:-(st.level - 1)]
        base = '.'.join(pkg)
        if st.module is None:
            for a in st.names:
                self.bind(env, a.asname or a.name, self.prog.load(f'{base}.{a.name}'))
        else:
            sub = self.prog.load(f'{base}.{st.module}')
            for a in st.names:
                if isinstance(sub, Module):
                    if a.name in sub.env:
                        v = sub.env[a.name]
                    else:
                        try:
                            v = self.prog.load(f'{base}.{st.module}.{a.name}')
                        except AnalysisError:
                            raise MetaRaise(ImportError(f'cannot import name {a.name} from {sub.name}'),
                                            self.where(st, m))
                else:
                    v = getattr(sub, a.name)
                self.bind(env, a.asname or a.name, v)

    def bind(self, env, k, v):
        if isinstance(env, Env):
            env.set(k, v)
        else:
            env[k] = v

    def mkfunc(self, node, env, m, cls=None):
        decos = []
        for d in node.decorator_list:
            s = ast.unparse(d)
            decos.append(s.split('.')[-1])
        f = Func(node, env, m, cls, decos)
        for d in decos:
            if d not in ('contextmanager', 'property', 'classmethod', 'staticmethod'):
                raise Unsupported(f'decorator @{d} at {self.where(node, m)}')
        if 'property' in decos:
            return PropertyV(f)
        if 'classmethod' in decos:
            return ClassMethodV(f)
        if 'staticmethod' in decos:
            return StaticMethodV(f)
        return f

    def mkclass(self, node, env, m):
        bases = [self.ev(b, env, m) for b in node.bases]
        attrs = {}
        c = Cls(node.name, bases, attrs, m)
        cenv = Env(env)
        for st in node.body:
            if isinstance(st, (ast.FunctionDef,)):
                attrs[st.name] = self.mkfunc(st, env, m, c)
            elif isinstance(st, ast.Assign):
                v = self.ev(st.value, cenv, m)
                for t in st.targets:
                    if not isinstance(t, ast.Name):
                        raise Unsupported(f'class-level target at {self.where(st, m)}')
                    attrs[t.id] = v
                    cenv.set(t.id, v)
            elif isinstance(st, ast.Expr) and isinstance(st.value, ast.Constant):
                pass
            elif isinstance(st, ast.Pass):
                pass
            else:
                raise Unsupported(f'class body statement {type(st).__name__} at {self.where(st, m)}')
        return c

    # ---- calls
    def call(self, f, args, kwargs):
        if isinstance(f, Bound):
            return self.call(f.func, [f.selfv] + list(args), kwargs)
        if isinstance(f, (StaticMethodV,)):
            return self.call(f.func, args, kwargs)
        if isinstance(f, Func):
            if f.is_cm:
                return CM(self, f, args, dict(kwargs))
            g = self.run_func(f, args, dict(kwargs))
            if f.is_gen:
                return g
            try:
                next(g)
            except StopIteration as e:
                return e.value
            raise Unsupported(f'unexpected yield in {f.name}')
        if isinstance(f, Cls):
            if any(not isinstance(b, Cls) and b is not object for b in f.mro()[-1].bases):
                raise Unsupported(f'class {f.name} derives from a non-interpreted base')
            o = Obj(f)
            if f.has('__init__'):
                self.call(f.lookup('__init__'), [o] + list(args), kwargs)
            elif args or kwargs:
                raise MetaRaise(TypeError(f'{f.name}() takes no arguments'))
            return o
        if f is SAFE_BUILTINS['isinstance']:
            return self.isinstance_(args[0], args[1])
        if f is SAFE_BUILTINS['hasattr']:
            try:
                self.getattr(args[0], args[1])
                return True
            except MetaRaise as e:
                if isinstance(e.exc, AttributeError):
                    return False
                raise
        if f is SAFE_BUILTINS['getattr']:
            try:
                return self.getattr(args[0], args[1])
            except MetaRaise as e:
                if isinstance(e.exc, AttributeError) and len(args) > 2:
                    return args[2]
                raise
        if f is SAFE_BUILTINS['setattr']:
            self.setattr(args[0], args[1], args[2])
            return None
        if f is SAFE_BUILTINS['type'] and len(args) == 1 and isinstance(args[0], Obj):
            return args[0].cls
        if f is SAFE_BUILTINS['callable'] and isinstance(args[0], (Func, Bound, Cls)):
            return True
        if f is SAFE_BUILTINS['eval']:
            # the translator evaluates option values given as inline Python (True, 2, None):
            # literals only
            import ast as _ast
            try:
                return _ast.literal_eval(args[0])
            except Exception:
                raise Unsupported(f'eval() of a non-literal in generator code: {args[0]!r}')
        if isinstance(f, (Obj,)):
            return self.call(self.getattr(f, '__call__'), args, kwargs)
        if not callable(f):
            raise MetaRaise(TypeError(f'{type(f).__name__} object is not callable'))
        # real callables (builtins, outsourcer, stdlib).  Interpreted functions passed
        # as callbacks are wrapped so that real code can call them.
        args = [self.wrap_cb(a) for a in args]
        kwargs = {k: self.wrap_cb(v) for k, v in kwargs.items()}
        try:
            return f(*args, **kwargs)
        except (MetaRaise, AnalysisError, BreakSig, ContinueSig, ReturnSig):
            raise
        except RecursionError:
            raise
        except Exception as e:
            raise MetaRaise(e, f'in call of {getattr(f, "__name__", f)}')

    def wrap_cb(self, v):
        if isinstance(v, (Func, Bound)):
            return lambda *a, **k: self.call(v, list(a), k)
        return v

    def run_func(self, f, args, kwargs):
        a = f.node.args
        env = Env(f.env)
        m = f.module
        pos = [x.arg for x in a.posonlyargs + a.args]
        defaults = [None] * (len(pos) - len(a.defaults)) + list(a.defaults)
        args = list(args)
        if len(args) > len(pos) and not a.vararg:
            raise MetaRaise(TypeError(
                f'{f.name}() takes {len(pos)} positional arguments but {len(args)} were given'))
        for i, n in enumerate(pos):
            if i < len(args):
                if n in kwargs:
                    raise MetaRaise(TypeError(f'{f.name}() got multiple values for argument {n!r}'))
                env.d[n] = args[i]
            elif n in kwargs:
                env.d[n] = kwargs.pop(n)
            elif defaults[i] is not None:
                env.d[n] = self.ev(defaults[i], f.env, m)
            else:
                raise MetaRaise(TypeError(f'{f.name}() missing required argument {n!r}'))
        if a.vararg:
            env.d[a.vararg.arg] = tuple(args[len(pos):])
        for i, k in enumerate(a.kwonlyargs):
            if k.arg in kwargs:
                env.d[k.arg] = kwargs.pop(k.arg)
            elif a.kw_defaults[i] is not None:
                env.d[k.arg] = self.ev(a.kw_defaults[i], f.env, m)
            else:
                raise MetaRaise(TypeError(f'{f.name}() missing keyword-only argument {k.arg!r}'))
        if a.kwarg:
            env.d[a.kwarg.arg] = dict(kwargs)
        elif kwargs:
            raise MetaRaise(TypeError(
                f'{f.name}() got an unexpected keyword argument {next(iter(kwargs))!r}'))
        try:
            yield from self.block(f.node.body, env, m)
        except ReturnSig as r:
            return r.v
        return None

    # ---- statements (generators: suspend at `yield`)
    def block(self, stmts, env, m):
        for st in stmts:
            yield from self.stmt(st, env, m)

    def stmt(self, st, env, m):
        self.prog.steps += 1
        if self.prog.steps > self.MAX_STEPS:
            raise AnalysisError('meta-evaluation step budget exceeded (generator loop?)')
        T = type(st)
        if T is ast.Expr:
            if isinstance(st.value, ast.Yield):
                sent = yield (self.ev(st.value.value, env, m) if st.value.value else None)
                return
            if isinstance(st.value, ast.YieldFrom):
                for item in self.iterate(self.ev(st.value.value, env, m)):
                    yield item
                return
            self.ev(st.value, env, m)
        elif T is ast.Assign:
            if isinstance(st.value, ast.Yield):
                v = yield (self.ev(st.value.value, env, m) if st.value.value else None)
            else:
                v = self.ev(st.value, env, m)
            for t in st.targets:
                self.assign(t, v, env, m)
        elif T is ast.AnnAssign:
            if st.value is not None:
                self.assign(st.target, self.ev(st.value, env, m), env, m)
        elif T is ast.AugAssign:
            load_t = _as_load(st.target)
            cur = self.ev(load_t, env, m)
            v = self.ev(st.value, env, m)
            opn = type(st.op)
            if opn not in _AUG:
                raise Unsupported(f'augmented operator at {self.where(st, m)}')
            try:
                new = _AUG[opn](cur, v)
            except Exception as e:
                raise MetaRaise(e, self.where(st, m))
            self.assign(st.target, new, env, m)
        elif T is ast.If:
            if self.truth(self.ev(st.test, env, m)):
                yield from self.block(st.body, env, m)
            else:
                yield from self.block(st.orelse, env, m)
        elif T is ast.For:
            broke = False
            for item in self.iterate(self.ev(st.iter, env, m)):
                self.assign(st.target, item, env, m)
                try:
                    yield from self.block(st.body, env, m)
                except BreakSig:
                    broke = True
                    break
                except ContinueSig:
                    continue
            if not broke:
                yield from self.block(st.orelse, env, m)
        elif T is ast.While:
            broke = False
            n = 0
            while self.truth(self.ev(st.test, env, m)):
                n += 1
                if n > 100000:
                    raise AnalysisError(f'while loop does not terminate at {self.where(st, m)}')
                try:
                    yield from self.block(st.body, env, m)
                except BreakSig:
                    broke = True
                    break
                except ContinueSig:
                    continue
            if not broke:
                yield from self.block(st.orelse, env, m)
        elif T is ast.With:
            yield from self.with_(st, 0, env, m)
        elif T is ast.Return:
            raise ReturnSig(self.ev(st.value, env, m) if st.value else None)
        elif T is ast.Break:
            raise BreakSig()
        elif T is ast.Continue:
            raise ContinueSig()
        elif T is ast.Pass:
            pass
        elif T is ast.FunctionDef:
            self.bind(env, st.name, self.mkfunc(st, env, m))
        elif T is ast.ClassDef:
            self.bind(env, st.name, self.mkclass(st, env, m))
        elif T in (ast.Import, ast.ImportFrom):
            self.do_import(st, env, m)
        elif T is ast.Raise:
            if st.exc is None:
                raise Unsupported(f'bare raise at {self.where(st, m)}')
            exc = self.ev(st.exc, env, m)
            if isinstance(exc, type) and issubclass(exc, BaseException):
                exc = exc()
            if not isinstance(exc, BaseException):
                raise Unsupported(f'raise of non-exception at {self.where(st, m)}')
            raise MetaRaise(exc, self.where(st, m))
        elif T is ast.Try:
            yield from self.try_(st, env, m)
        elif T is ast.Nonlocal:
            env.nonlocals.update(st.names)
        elif T is ast.Global:
            env.globals_.update(st.names)
        elif T is ast.Assert:
            if not self.truth(self.ev(st.test, env, m)):
                raise MetaRaise(AssertionError(ast.unparse(st.test)), self.where(st, m))
        elif T is ast.Delete:
            for t in st.targets:
                if isinstance(t, ast.Name):
                    env.delete(t.id)
                elif isinstance(t, ast.Subscript):
                    del self.ev(t.value, env, m)[self.ev(t.slice, env, m)]
                else:
                    raise Unsupported(f'del target at {self.where(st, m)}')
        else:
            raise Unsupported(f'statement {T.__name__} at {self.where(st, m)}')

    def try_(self, st, env, m):
        try:
            try:
                yield from self.block(st.body, env, m)
            except MetaRaise as e:
                for h in st.handlers:
                    if h.type is None:
                        ok = True
                    else:
                        ht = self.ev(h.type, env, m)
                        ok = isinstance(e.exc, ht)
                    if ok:
                        if h.name:
                            self.bind(env, h.name, e.exc)
                        yield from self.block(h.body, env, m)
                        break
                else:
                    raise
            else:
                yield from self.block(st.orelse, env, m)
        finally:
            if st.finalbody:
                for _ in self.block(st.finalbody, env, m):
                    raise Unsupported('yield inside finally')

    def with_(self, st, i, env, m):
        if i == len(st.items):
            yield from self.block(st.body, env, m)
            return
        item = st.items[i]
        cm = self.ev(item.context_expr, env, m)
        if not hasattr(cm, '__enter__'):
            raise MetaRaise(TypeError('not a context manager'), self.where(st, m))
        v = cm.__enter__()
        if item.optional_vars is not None:
            self.assign(item.optional_vars, v, env, m)
        try:
            yield from self.with_(st, i + 1, env, m)
        except (BreakSig, ContinueSig, ReturnSig) as sig:
            cm.__exit__(type(sig), sig, None)
            raise
        except MetaRaise as e:
            # propagate through real context managers so their `finally` runs
            cm.__exit__(type(e), e, None)
            raise
        cm.__exit__(None, None, None)

    def iterate(self, v):
        if isinstance(v, Obj):
            raise Unsupported('iteration over interpreted object')
        try:
            return iter(v)
        except TypeError as e:
            raise MetaRaise(e)

    def assign(self, t, v, env, m):
        if isinstance(t, ast.Name):
            self.bind(env, t.id, v)
        elif isinstance(t, (ast.Tuple, ast.List)):
            try:
                vs = list(v)
            except TypeError as e:
                raise MetaRaise(e, self.where(t, m))
            star = [i for i, e in enumerate(t.elts) if isinstance(e, ast.Starred)]
            if star:
                i = star[0]
                tail = len(t.elts) - i - 1
                if len(vs) < len(t.elts) - 1:
                    raise MetaRaise(ValueError('not enough values to unpack'), self.where(t, m))
                for a, b in zip(t.elts[:i], vs[:i]):
                    self.assign(a, b, env, m)
                self.assign(t.elts[i].value, vs[i:len(vs) - tail], env, m)
                for a, b in zip(t.elts[i + 1:], vs[len(vs) - tail:]):
                    self.assign(a, b, env, m)
                return
            if len(vs) != len(t.elts):
                raise MetaRaise(ValueError('unpack length mismatch'), self.where(t, m))
            for a, b in zip(t.elts, vs):
                self.assign(a, b, env, m)
        elif isinstance(t, ast.Attribute):
            self.setattr(self.ev(t.value, env, m), t.attr, v)
        elif isinstance(t, ast.Subscript):
            c = self.ev(t.value, env, m)
            k = self.ev(t.slice, env, m)
            try:
                c[k] = v
            except Exception as e:
                raise MetaRaise(e, self.where(t, m))
        else:
            raise Unsupported(f'assignment target {type(t).__name__} at {self.where(t, m)}')

    def setattr(self, o, name, v):
        if isinstance(o, Obj):
            o.d[name] = v
        elif isinstance(o, Cls):
            o.attrs[name] = v
        elif isinstance(o, Module):
            o.env[name] = v
        else:
            try:
                setattr(o, name, v)
            except Exception as e:
                raise MetaRaise(e)

    def truth(self, v):
        OS = load.load_outsourcer()
        if isinstance(v, OS.Code):
            raise Unsupported('truth value of emitted Code taken at generation time')
        if isinstance(v, Obj):
            if v.cls.has('__bool__'):
                return bool(v._call('__bool__'))
            if v.cls.has('__len__'):
                return bool(v._call('__len__'))
            return True
        return bool(v)

    # ---- expressions
    def ev(self, e, env, m):
        meth = getattr(self, 'e_' + type(e).__name__, None)
        if meth is None:
            raise Unsupported(f'expression {type(e).__name__} at {self.where(e, m)}')
        return meth(e, env, m)

    def e_Constant(self, e, env, m):
        return e.value

    def e_Name(self, e, env, m):
        try:
            return env.get(e.id) if isinstance(env, Env) else env[e.id]
        except KeyError:
            if e.id in SAFE_BUILTINS:
                return SAFE_BUILTINS[e.id]
            if hasattr(_b, e.id):
                raise Unsupported(f'builtin {e.id} at {self.where(e, m)}')
            raise MetaRaise(NameError(f"name '{e.id}' is not defined"), self.where(e, m))

    def e_Attribute(self, e, env, m):
        o = self.ev(e.value, env, m)
        try:
            return self.getattr(o, e.attr)
        except MetaRaise as x:
            if not x.where:
                x.where = self.where(e, m)
                x.args = (f'{x.args[0]} at {x.where} ({ast.unparse(e)})',)
            raise

    def getattr(self, o, name):
        if isinstance(o, Obj):
            if name in o.d:
                return o.d[name]
            if name == '__class__':
                return o.cls
            if name == '__dict__':
                return o.d
            try:
                v = o.cls.lookup(name)
            except AttributeError:
                raise MetaRaise(AttributeError(
                    f"'{o.cls.name}' object has no attribute '{name}'"))
            if isinstance(v, Func):
                return Bound(v, o)
            if isinstance(v, PropertyV):
                return self.call(v.func, [o], {})
            if isinstance(v, ClassMethodV):
                return Bound(v.func, o.cls)
            if isinstance(v, StaticMethodV):
                return v.func
            return v
        if isinstance(o, Cls):
            if name == '__name__':
                return o.name
            try:
                v = o.lookup(name)
            except AttributeError:
                raise MetaRaise(AttributeError(f"type object '{o.name}' has no attribute '{name}'"))
            if isinstance(v, ClassMethodV):
                return Bound(v.func, o)
            if isinstance(v, StaticMethodV):
                return v.func
            return v
        if isinstance(o, Module):
            if name in o.env:
                return o.env[name]
            raise MetaRaise(AttributeError(f"module '{o.name}' has no attribute '{name}'"))
        if isinstance(o, (Func, Bound)) and name == '__name__':
            return o.__name__
        try:
            return getattr(o, name)
        except AnalysisError:
            raise
        except AttributeError as e:
            raise MetaRaise(e)

    def e_Call(self, e, env, m):
        f = self.ev(e.func, env, m)
        args = []
        for a in e.args:
            if isinstance(a, ast.Starred):
                args += list(self.iterate(self.ev(a.value, env, m)))
            else:
                args.append(self.ev(a, env, m))
        kwargs = {}
        for k in e.keywords:
            if k.arg is None:
                kwargs.update(self.ev(k.value, env, m))
            else:
                kwargs[k.arg] = self.ev(k.value, env, m)
        try:
            return self.call(f, args, kwargs)
        except MetaRaise as x:
            if not x.where:
                x.where = self.where(e, m)
                x.args = (f'{x.args[0]} at {x.where}',)
            raise

    def isinstance_(self, o, c):
        if isinstance(c, tuple):
            return any(self.isinstance_(o, x) for x in c)
        if isinstance(c, Cls):
            if isinstance(o, Obj):
                return c in o.cls.mro()
            if isinstance(o, AbsChild):
                return c.name == 'Expression' or o.kind == c.name
            return False
        if isinstance(o, (Obj, AbsChild)):
            return c is object
        if isinstance(o, Cls):
            return c is type or c is object
        try:
            return isinstance(o, c)
        except TypeError as e:
            raise MetaRaise(e)

    def e_BinOp(self, e, env, m):
        l, r = self.ev(e.left, env, m), self.ev(e.right, env, m)
        fn = _BIN.get(type(e.op))
        if fn is None:
            raise Unsupported(f'binary operator at {self.where(e, m)}')
        try:
            return fn(l, r)
        except AnalysisError:
            raise
        except Exception as x:
            raise MetaRaise(x, self.where(e, m))

    def e_UnaryOp(self, e, env, m):
        v = self.ev(e.operand, env, m)
        if isinstance(e.op, ast.Not):
            return not self.truth(v)
        if isinstance(e.op, ast.USub):
            return -v
        if isinstance(e.op, ast.UAdd):
            return +v
        if isinstance(e.op, ast.Invert):
            return ~v
        raise Unsupported('unary operator')

    def e_BoolOp(self, e, env, m):
        v = None
        for x in e.values:
            v = self.ev(x, env, m)
            t = self.truth(v)
            if isinstance(e.op, ast.And) and not t:
                return v
            if isinstance(e.op, ast.Or) and t:
                return v
        return v

    def e_Compare(self, e, env, m):
        OS = load.load_outsourcer()
        l = self.ev(e.left, env, m)
        res = True
        for o, c in zip(e.ops, e.comparators):
            r = self.ev(c, env, m)
            fn = _CMP[type(o)]
            try:
                res = fn(l, r)
            except AnalysisError:
                raise
            except Exception as x:
                raise MetaRaise(x, self.where(e, m))
            if isinstance(res, OS.Code):
                if len(e.ops) != 1:
                    raise Unsupported('chained comparison producing Code')
                return res
            if not res:
                return res
            l = r
        return res

    def e_IfExp(self, e, env, m):
        if self.truth(self.ev(e.test, env, m)):
            return self.ev(e.body, env, m)
        return self.ev(e.orelse, env, m)

    def e_Tuple(self, e, env, m):
        return tuple(self.seq(e.elts, env, m))

    def e_List(self, e, env, m):
        return list(self.seq(e.elts, env, m))

    def e_Set(self, e, env, m):
        return set(self.seq(e.elts, env, m))

    def seq(self, elts, env, m):
        out = []
        for x in elts:
            if isinstance(x, ast.Starred):
                out += list(self.iterate(self.ev(x.value, env, m)))
            else:
                out.append(self.ev(x, env, m))
        return out

    def e_Dict(self, e, env, m):
        out = {}
        for k, v in zip(e.keys, e.values):
            if k is None:
                out.update(self.ev(v, env, m))
            else:
                out[self.ev(k, env, m)] = self.ev(v, env, m)
        return out

    def e_Subscript(self, e, env, m):
        c = self.ev(e.value, env, m)
        k = self.ev(e.slice, env, m)
        try:
            return c[k]
        except AnalysisError:
            raise
        except Exception as x:
            raise MetaRaise(x, self.where(e, m))

    def e_Slice(self, e, env, m):
        f = lambda x: None if x is None else self.ev(x, env, m)
        return slice(f(e.lower), f(e.upper), f(e.step))

    def e_Starred(self, e, env, m):
        raise Unsupported('starred expression outside call/display')

    def e_NamedExpr(self, e, env, m):
        v = self.ev(e.value, env, m)
        self.assign(e.target, v, env, m)
        return v

    def e_JoinedStr(self, e, env, m):
        parts = []
        for v in e.values:
            if isinstance(v, ast.Constant):
                parts.append(v.value)
            else:
                parts.append(self.e_FormattedValue(v, env, m))
        return ''.join(parts)

    def e_FormattedValue(self, v, env, m):
        x = self.ev(v.value, env, m)
        if v.conversion == ord('r'):
            x = repr(x)
        elif v.conversion == ord('s'):
            x = str(x)
        elif v.conversion == ord('a'):
            x = ascii(x)
        spec = self.ev(v.format_spec, env, m) if v.format_spec else ''
        if isinstance(x, (Cls, Func, Bound, Module)):
            raise Unsupported('formatting of a meta-level function/class')
        try:
            return format(x, spec)
        except AnalysisError:
            raise
        except Exception as exc:
            raise MetaRaise(exc, self.where(v, m))

    def comp(self, gens, env, m, i, emit):
        if i == len(gens):
            emit(env)
            return
        g = gens[i]
        for item in self.iterate(self.ev(g.iter, env, m)):
            e2 = Env(env)
            self.assign(g.target, item, e2, m)
            if all(self.truth(self.ev(c, e2, m)) for c in g.ifs):
                self.comp(gens, e2, m, i + 1, emit)

    def e_ListComp(self, e, env, m):
        out = []
        self.comp(e.generators, env, m, 0, lambda en: out.append(self.ev(e.elt, en, m)))
        return out

    def e_GeneratorExp(self, e, env, m):
        return iter(self.e_ListComp(e, env, m))

    def e_SetComp(self, e, env, m):
        return set(self.e_ListComp(e, env, m))

    def e_DictComp(self, e, env, m):
        out = {}
        self.comp(e.generators, env, m, 0,
                  lambda en: out.__setitem__(self.ev(e.key, en, m), self.ev(e.value, en, m)))
        return out

    def e_Lambda(self, e, env, m):
        node = ast.FunctionDef(name='<lambda>', args=e.args,
                               body=[ast.Return(value=e.body)], decorator_list=[])
        ast.copy_location(node, e)
        ast.fix_missing_locations(node)
        return Func(node, env, m)

    def e_Yield(self, e, env, m):
        raise Unsupported(f'yield in expression position at {self.where(e, m)}')


def _as_load(t):
    t2 = ast.parse(ast.unparse(t), mode='eval').body
    ast.copy_location(t2, t)
    return t2


def _iadd(a, b):
    if hasattr(a, '__iadd__'):
        r = a.__iadd__(b)
        if r is not NotImplemented:
            return r
    return a + b


_AUG = {ast.Add: _iadd, ast.Sub: _op.sub, ast.Mult: _op.mul, ast.BitOr: _op.or_,
        ast.BitAnd: _op.and_, ast.BitXor: _op.xor, ast.FloorDiv: _op.floordiv, ast.Mod: _op.mod}
_BIN = {ast.Add: _op.add, ast.Sub: _op.sub, ast.LShift: _op.lshift, ast.RShift: _op.rshift,
        ast.Mult: _op.mul, ast.Mod: _op.mod, ast.BitOr: _op.or_, ast.BitAnd: _op.and_,
        ast.BitXor: _op.xor, ast.FloorDiv: _op.floordiv, ast.Div: _op.truediv, ast.Pow: _op.pow}
_CMP = {ast.Eq: _op.eq, ast.NotEq: _op.ne, ast.Lt: _op.lt, ast.LtE: _op.le, ast.Gt: _op.gt,
        ast.GtE: _op.ge, ast.Is: _op.is_, ast.IsNot: _op.is_not,
        ast.In: lambda a, b: a in b, ast.NotIn: lambda a, b: a not in b}

# one interpreter serves Obj.__str__/__repr__ call-backs
INTERP = Interp(Program())


def fresh_program(overrides=None):
    global INTERP
    prog = Program(overrides)
    INTERP = Interp(prog)
    return prog, INTERP


class Flags:
    """Stand-in for translator._Flags (the only attribute read is uses_context)."""

    def __init__(self, uses_context):
        self.uses_context = uses_context

    def __getattr__(self, name):
        raise Unsupported(f'flags.{name} read by generator code (unknown flag)')
