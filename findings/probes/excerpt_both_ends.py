from sourcer import Grammar
import sys
g = Grammar('start = /a+/')
bad = 0
for k in (39, 40, 41, 42, 43):
    line = 'a' * 70 + '!' + 'b' * (k - 1)      # error at index 70, end - pos == k
    text = line + '\nSECOND LINE'
    try:
        g.parse(text)
    except g.PartialParseError as e:
        msg = str(e)
        lines = msg.split('\n')
        exc, caret = lines[1], lines[2]
        ok = 'SECOND' not in msg and len(lines) == 3 and exc[caret.index('^')] == '!'
        print(k, 'ok' if ok else 'VIOLATION', repr(lines[1][-12:]), len(lines))
        bad += not ok
sys.exit(1 if bad else 0)
