"""C05 - bound names and data-dependent predicates."""
import ast

from ..common import Finding, AnalysisError
from .. import load, routes, e1run
from . import shared

# verbatim-emission sites that are not user-bound names (one line of reason each)
NOT_USER_LOCALS = {
    ('Seq', 'constructor'): 'the class name: a module-level name of the generated module',
    ('Ref', 'resolved'): 'reported to SymbolCounter through is_reference / name',
    ('Ref', 'name'): 'reported to SymbolCounter through is_reference / name',
}


def freevar_protocol(rep):
    """(b) every route by which description text becomes Python code inside a rule function is known
    to the free-variable protocol: functionalize() (spill helpers and argument closures) passes
    exactly freevars(), which SymbolCounter computes from defines_local / has_params / is_reference."""
    n = 0
    keys = set()
    for rel in load.expression_files():
        tree = load.parse(rel)
        for cls in [c for c in tree.body if isinstance(c, ast.ClassDef)]:
            attrs = {}
            for st in cls.body:
                if isinstance(st, ast.Assign):
                    for t in st.targets:
                        if isinstance(t, ast.Name) and isinstance(st.value, ast.Constant):
                            attrs[t.id] = st.value.value
            for m in cls.body:
                if not isinstance(m, ast.FunctionDef) or m.name in ('__init__', '__str__', 'complain', 'functionalize',
                                                                     'error_func'):
                    continue
                for node in ast.walk(m):
                    if not (isinstance(node, ast.Call) and isinstance(node.func, ast.Name) and node.func.id == 'Code'
                            and len(node.args) == 1):
                        continue
                    a = node.args[0]
                    attr = None
                    if isinstance(a, ast.Attribute) and isinstance(a.value, ast.Name) and a.value.id == 'self':
                        attr = a.attr
                    elif isinstance(a, ast.Name) and a.id in ('name',) and cls.name == 'Seq':
                        attr = '<member name>'
                    if attr is None:
                        continue
                    n += 1
                    key = (cls.name, attr)
                    keys.add(key)
                    if key in NOT_USER_LOCALS:
                        rep.oblige(True)
                        continue
                    binder = attrs.get('defines_local') is True and attr == 'name'
                    reference = attrs.get('is_reference') is True and attr in ('name', 'resolved')
                    rep.oblige(binder or reference)
                    if not (binder or reference):
                        kind = 'binds a local' if attr == '<member name>' else 'pastes description text that may mention bound names'
                        rep.add(Finding('FREEVAR-visible', f'{rel}:{cls.name}', attr,
                                        f'{cls.name}.{m.name} emits `Code({ast.unparse(a)})` verbatim - it {kind} - but the '
                                        f'class neither declares the binding (defines_local/has_params) nor reports '
                                        f'a reference (is_reference): freevars() does not see the name, so a helper '
                                        f'function or argument closure built around it does not receive it (NameError)',
                                        f'{rel}:{cls.name}.{m.name} (line {node.lineno})'))
    rep.count('verbatim emission sites examined', n)
    rep.count('distinct (class, attribute) pairs emitted verbatim', len(keys))
    rep.floor('distinct (class, attribute) pairs emitted verbatim', len(keys), 5)
    # SymbolCounter itself: binds on defines_local and has_params, references on is_reference
    base = load.parse('sourcer/expressions/base.py')
    sc = load.classes_of(base).get('SymbolCounter')
    if sc is None:
        raise AnalysisError('anchor base.SymbolCounter vanished')
    src = ast.unparse(sc)
    for needle in ('defines_local', 'has_params', 'is_reference', 'is_local', 'freevars'):
        if needle not in src:
            rep.add(Finding('FREEVAR-visible', 'sourcer/expressions/base.py:SymbolCounter', needle,
                            f'SymbolCounter no longer consults {needle}', 'sourcer/expressions/base.py:SymbolCounter'))


def reference_pass_order(rep):
    """local references are marked before rule references are resolved (the resolution is guarded by
    `not node.is_local`)"""
    tree = load.parse('sourcer/translator.py')
    g = load.functions_of(tree).get('generate_source_code')
    if g is None:
        raise AnalysisError('anchor generate_source_code vanished')
    order = []
    for n in ast.walk(g):
        if isinstance(n, ast.Call) and isinstance(n.func, ast.Name) and n.func.id in (
                '_update_local_references', '_update_rule_references', '_assign_ids'):
            order.append((n.lineno, n.func.id))
    order = [x for _, x in sorted(order)]
    rep.count('translator passes ordered', len(order))
    if '_update_local_references' in order and '_update_rule_references' in order:
        ok = order.index('_update_local_references') < order.index('_update_rule_references')
        rep.oblige(ok)
        if not ok:
            rep.add(Finding('LOCAL-shadow', 'sourcer/translator.py:generate_source_code', 'pass-order',
                            'rule references are resolved before local references are marked: the guard '
                            '`not node.is_local` is still False for every reference, so a parameter or let '
                            'variable spelled like a rule is emitted as that rule',
                            'sourcer/translator.py:generate_source_code'))
    else:
        raise AnalysisError('anchor passes _update_local_references/_update_rule_references vanished')


def run(rep, tier):
    rep.explanation = (
        '(a) Let and Seq-with-names skeletons: at the start of every later child the bound name holds '
        'the value of its expression (E1 provenance, all configurations); binders are plain local '
        'stores of the rule function (G5: no global/nonlocal/attribute target), so every generator '
        'frame - attempt, recursive or sibling invocation, parse - has its own binding; locally bound '
        'names are emitted as locals even when a rule of the same name exists (route `shadow`, both '
        'conventions, plus the order of the two reference passes). (b) every verbatim emission site '
        'Code(self.x) of description text is either a declared binder or a reported reference. '
        '(c) Where / Apply value-flow rows (E1). (d) generated classes: _fields = __init__ parameters = '
        'repr keywords = constructor call arguments in declaration order; let / pass members are '
        'parsed but not passed; requires is evaluated.')
    rep.not_decided += ['what user Python computes']
    shared.describe_rules(rep, only=('S-binder', 'S-value', 'S-flow', 'G5-local-stores', 'G2-as-sound', 'G2-cp-sound',
                                     'G6-temp-unique'))
    for rid, txt in [
        ('LOCAL-shadow', 'locally bound names are emitted as locals, not as rules of the same name'),
        ('ARG-captures', 'a compound template argument is handed exactly the local names it uses (free variables '
                         'of the skeleton object) at the place of the call'),
        ('FREEVAR-visible', 'every verbatim emission of description text is visible to the free-variable protocol'),
        ('C05-class-ctor', 'constructor call lists exactly the fields, in order'),
        ('C05-class-members', 'let/pass members parsed but not passed; requires evaluated; binding order'),
        ('C14-field-tables', 'generated class field tables agree'),
    ]:
        rep.rule(rid, txt)
    total = e1run.run(rep, ['Let', 'Seq', 'Where', 'Apply'], tier,
                      select=lambda f: f['rule'] in ('S-binder', 'S-value', 'S-flow', 'G5-local-stores',
                                                     'G1-no-trace', 'G2-as-sound', 'G2-cp-sound',
                                                     'G3-protocol', 'G6-temp-unique'))
    for K, want in {'Let': 18, 'Seq': 1300, 'Where': 18, 'Apply': 36}.items():
        rep.floor(f'configurations of {K}', total.get(K, 0), want)
    found, stats, nmods = routes.run(rep, 'C05', ['LOCAL-shadow', 'C05-', 'C14-field-tables', 'ARG-captures'])
    rep.floor('generated classes examined', stats['classes'], 12)
    freevar_protocol(rep)
    reference_pass_order(rep)
    from .. import controls
    controls.e1_controls(rep)
