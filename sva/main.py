"""./check <Cxx> [--tier quick|thorough] [--replay <file>]"""
import argparse
import importlib
import json
import os
import sys
import traceback

from .common import Report, AnalysisError, REPO, VERIF


def selfcheck():
    import glob
    from . import load
    n = 0
    for f in sorted(glob.glob(os.path.join(VERIF, 'sva', '**', '*.py'), recursive=True)):
        if '/vendor/' in f:
            continue
        with open(f) as fh:
            compile(fh.read(), f, 'exec')
        n += 1
    os_mod = load.load_outsourcer()
    print(f'selfcheck: {n} checker modules compile; outsourcer from {os_mod.__verif_path__} '
          f'({os_mod.__verif_digest__})')
    return 0


def main(argv=None):
    argv = sys.argv[1:] if argv is None else argv
    if argv and argv[0] == '--selfcheck':
        return selfcheck()
    ap = argparse.ArgumentParser()
    ap.add_argument('pid')
    ap.add_argument('--tier', default=os.environ.get('VERIF_TIER') or 'quick',
                    choices=['quick', 'thorough'])
    ap.add_argument('--replay')
    a = ap.parse_args(argv)
    pid = a.pid.upper()
    if a.replay:
        with open(a.replay) as f:
            r = json.load(f)
        print(f'replay of {r.get("rule")} on {r.get("construct")} [{r.get("config")}] '
              f'at {r.get("where")}:\n  {r.get("message")}')
        sk = (r.get('detail') or {}).get('skeleton')
        if sk:
            print('--- emitted skeleton ---\n' + sk)
        print('re-running the check that owns this instance:')
    rep = Report(pid, a.tier)
    try:
        mod = importlib.import_module(f'sva.props.{pid}')
    except ModuleNotFoundError:
        print(f'ANALYSIS-ERROR property={pid} no check registered')
        return 2
    try:
        mod.run(rep, a.tier)
    except AnalysisError as e:
        rep.error(f'{type(e).__name__}: {e}')
    except RecursionError:
        rep.error('internal error: recursion limit in checker')
    except Exception:
        rep.error('internal error in checker: ' + traceback.format_exc().replace('\n', ' | '))
    return rep.finish()


if __name__ == '__main__':
    sys.setrecursionlimit(20000)
    sys.exit(main())
