from sourcer import Grammar
g = Grammar('Left(x) = x << "!"\nstart = Left("a")')   # user template named like a documented constructor
print(g.parse('a!'))
