"""Explicit-state abstract reachability over an emitted code skeleton.

The skeleton is straight Python text (rendered by outsourcer) in which every child
expression is the marker statement

    (_status, _result, _pos) = __CHILD__('<slot>', _pos)

Abstract state
  st    : True / False / None          value of the _status register
  env   : name -> term                 terms are nested tuples (see `val`)
  emp   : list variable -> 'E'|'N'|'?' emptiness
  bl    : name -> bool                 boolean temporaries holding constants
  hist  : tuple of (slot, ok) or None  outcomes of the children so far (loop-free mode)

Provenance terms for positions: 'ENTRY', ('SUCC', c), ('FAIL', c) ; for results:
('OK', c), ('ERR', c), 'ERRSELF', ('CONST', 'None'), ... .  A child that fails with
CP=False leaves `_pos` as it was (assume side of the induction).
"""
import ast

from .common import AnalysisError, Unsupported

MAX_STATES = 200000
MAX_DEPTH = 12


def is_child_marker(st):
    return (isinstance(st, ast.Assign) and isinstance(st.value, ast.Call)
            and isinstance(st.value.func, ast.Name) and st.value.func.id == '__CHILD__')


class St:
    __slots__ = ('st', 'env', 'emp', 'bl', 'hist', '_k')

    def __init__(self, st=None, env=None, emp=None, bl=None, hist=()):
        self.st = st
        self.env = dict(env or {})
        self.emp = dict(emp or {})
        self.bl = dict(bl or {})
        self.hist = hist
        self._k = None

    def copy(self):
        return St(self.st, self.env, self.emp, self.bl, self.hist)

    def key(self):
        if self._k is None:
            self._k = (self.st, tuple(sorted(self.env.items(), key=repr)),
                       tuple(sorted(self.emp.items())), tuple(sorted(self.bl.items())), self.hist)
        return self._k

    def __hash__(self):
        return hash(self.key())

    def __eq__(self, o):
        return self.key() == o.key()

    @property
    def pos(self):
        return self.env.get('_pos')

    @property
    def res(self):
        return self.env.get('_result')

    def __repr__(self):
        return f'<st={self.st} pos={fmt(self.pos)} res={fmt(self.res)} emp={self.emp} bl={self.bl}>'


def fmt(t):
    if isinstance(t, tuple):
        if t and t[0] in ('SUCC', 'FAIL', 'OK', 'ERR'):
            return f'{t[0]}({t[1]})'
        return '(' + ' '.join(fmt(x) for x in t) + ')'
    if isinstance(t, frozenset):
        return '{' + ','.join(sorted(fmt(x) for x in t)) + '}'
    return str(t)


def depth(t):
    if isinstance(t, tuple):
        return 1 + max((depth(x) for x in t), default=0)
    if isinstance(t, frozenset):
        return 1 + max((depth(x) for x in t), default=0)
    return 0


class Flow:
    """Analyse `stmts` (a list of ast statements).  `children`: slot -> object with
    .AS and .CP.  `use_hist`: record child-outcome histories (only sound for
    effectively loop-free skeletons; checked: a taken back edge raises)."""

    def __init__(self, stmts, children, use_hist=False, entry_env=None, hooks=None, track=None):
        self.hooks = hooks
        self.memo = {}
        self.requests = []        # (callee term, pos term, state) for yield-requests
        self.stmts = stmts
        self.children = children
        self.use_hist = use_hist
        self.starts = []          # (slot, state before the child)
        self.notes = []
        self.back_edges = 0
        self.nstates = 0
        self.exits = []           # ('fall'|'yield'|'return', state, node)
        self.tests = []           # (node, state) for every evaluated branch test
        self.events = []          # ('append'|'pop'|'assign', name, node, state)
        self.entry_env = entry_env or {}
        self.tracked = self.compute_tracked(track or ())

    def compute_tracked(self, extra):
        """names whose value can reach _pos/_result/_status, an attribute store or a request
        (backward slice over the assignments of the skeleton); other variables are kept only
        as emptiness / boolean partitions"""
        tracked = {'_pos', '_result', '_status', '_text'} | set(extra) | set(self.entry_env)
        assigns = []
        for top in self.stmts:
            for n in ast.walk(top):
                if isinstance(n, ast.Assign):
                    tg = set()
                    attr = False
                    for t in n.targets:
                        for x in ast.walk(t):
                            if isinstance(x, ast.Name) and isinstance(x.ctx, ast.Store):
                                tg.add(x.id)
                            if isinstance(x, (ast.Attribute, ast.Subscript)) and isinstance(x.ctx, ast.Store):
                                attr = True
                    src = {x.id for x in ast.walk(n.value) if isinstance(x, ast.Name)}
                    assigns.append((tg, src, attr))
                elif isinstance(n, ast.AugAssign) and isinstance(n.target, ast.Name):
                    assigns.append(({n.target.id}, {x.id for x in ast.walk(n.value)
                                                     if isinstance(x, ast.Name)}, False))
                elif (isinstance(n, ast.Call) and isinstance(n.func, ast.Attribute)
                      and n.func.attr == 'append' and isinstance(n.func.value, ast.Name)
                      and len(n.args) == 1 and isinstance(n.args[0], ast.Name)):
                    assigns.append(({n.func.value.id}, {n.args[0].id}, False))
                elif isinstance(n, ast.Yield):
                    tracked |= {x.id for x in ast.walk(n) if isinstance(x, ast.Name)}
        changed = True
        while changed:
            changed = False
            for tg, src, attr in assigns:
                if (attr or tg & tracked) and not src <= tracked:
                    tracked |= src
                    changed = True
        return tracked

    def run(self):
        env = {'_pos': 'ENTRY', '_result': 'IN', '_text': 'TEXT'}
        env.update(self.entry_env)
        s0 = St(env=env, st=None, hist=() if self.use_hist else None, bl=getattr(self, 'initial_bl', None))
        o = self.block(self.stmts, {s0})
        if o['break'] or o['continue']:
            raise Unsupported('break/continue outside a loop in emitted skeleton')
        for s in o['next']:
            self.exits.append(('fall', s, None))
        return self.exits

    # ---- terms
    def val(self, e, s):
        v = self._val(e, s)
        if depth(v) > MAX_DEPTH:
            return ('TOP',)
        return v

    def _val(self, e, s):
        if isinstance(e, ast.Name):
            if e.id.startswith('_raise_error'):
                return 'ERRSELF'
            if e.id in s.bl:
                return ('CONST', repr(s.bl[e.id]))
            return s.env.get(e.id, ('VAR', e.id))  # untracked names are never in env
        if isinstance(e, ast.Constant):
            return ('CONST', repr(e.value))
        if isinstance(e, (ast.List, ast.Tuple)):
            kind = 'LIST' if isinstance(e, ast.List) else 'TUPLE'
            return (kind,) + tuple(self._val(x, s) for x in e.elts)
        if (isinstance(e, ast.Call) and isinstance(e.func, ast.Name) and e.func.id == 'len'
                and len(e.args) == 1 and isinstance(e.args[0], ast.Name)
                and e.args[0].id in s.emp):
            return ('LEN', e.args[0].id)
        if isinstance(e, ast.Call):
            return ('CALL', self._val(e.func, s)) + tuple(self._val(a, s) for a in e.args) + tuple(
                ('KW', k.arg, self._val(k.value, s)) for k in e.keywords)
        if isinstance(e, (ast.Attribute, ast.Subscript)) and isinstance(e.value, ast.Name):
            cur = s.env.get(e.value.id)
            if isinstance(cur, tuple) and cur[:1] == ('LISTOF',):
                base = ('LISTVAR', e.value.id)
                if isinstance(e, ast.Attribute):
                    return ('ATTR', base, e.attr)
                return ('SUB', base, self._val(e.slice, s))
        if isinstance(e, ast.Attribute):
            return ('ATTR', self._val(e.value, s), e.attr)
        if isinstance(e, ast.Subscript):
            return ('SUB', self._val(e.value, s), self._val(e.slice, s))
        if isinstance(e, ast.Slice):
            f = lambda x: ('CONST', 'None') if x is None else self._val(x, s)
            return ('SLICE', f(e.lower), f(e.upper), f(e.step))
        if isinstance(e, ast.BinOp):
            return ('OP', type(e.op).__name__, self._val(e.left, s), self._val(e.right, s))
        if isinstance(e, ast.UnaryOp):
            return ('UOP', type(e.op).__name__, self._val(e.operand, s))
        if isinstance(e, ast.Compare):
            return ('CMP', tuple(type(o).__name__ for o in e.ops), self._val(e.left, s)) + tuple(
                self._val(c, s) for c in e.comparators)
        if isinstance(e, ast.BoolOp):
            return ('BOOL', type(e.op).__name__) + tuple(self._val(v, s) for v in e.values)
        if isinstance(e, ast.Yield):
            return ('YIELD', self._val(e.value, s) if e.value else ('CONST', 'None'))
        if isinstance(e, ast.IfExp):
            return ('IFEXP', self._val(e.test, s), self._val(e.body, s), self._val(e.orelse, s))
        if isinstance(e, ast.JoinedStr):
            return ('FSTR', ast.unparse(e))
        if isinstance(e, ast.Lambda):
            return ('LAMBDA', ast.unparse(e))
        if isinstance(e, ast.Dict):
            return ('DICT',) + tuple(
                (None if k is None else self._val(k, s), self._val(v, s))
                for k, v in zip(e.keys, e.values))
        if isinstance(e, ast.Starred):
            return ('STAR', self._val(e.value, s))
        return ('EXPR', ast.unparse(e))

    # ---- branching
    def branches(self, e, s):
        """-> (states where test is true, states where it is false)"""
        if isinstance(e, ast.Constant):
            return ([s], []) if e.value else ([], [s])
        if isinstance(e, ast.UnaryOp) and isinstance(e.op, ast.Not):
            t, f = self.branches(e.operand, s)
            return f, t
        if isinstance(e, ast.BoolOp):
            if isinstance(e.op, ast.And):
                trues, falses = [s], []
                for v in e.values:
                    nt = []
                    for x in trues:
                        t, f = self.branches(v, x)
                        nt += t
                        falses += f
                    trues = nt
                return trues, falses
            trues, falses = [], [s]
            for v in e.values:
                nf = []
                for x in falses:
                    t, f = self.branches(v, x)
                    trues += t
                    nf += f
                falses = nf
            return trues, falses
        if isinstance(e, ast.Name):
            n = e.id
            if n == '_status':
                if s.st is not None:
                    return ([s], []) if s.st else ([], [s])
                a, b = s.copy(), s.copy()
                a.st, b.st = True, False
                return [a], [b]
            if n in s.bl:
                return ([s], []) if s.bl[n] else ([], [s])
            if n in s.emp:
                if s.emp[n] == 'N':
                    return [s], []
                if s.emp[n] == 'E':
                    return [], [s]
                a, b = s.copy(), s.copy()
                a.emp[n], b.emp[n] = 'N', 'E'
                return [a], [b]
            v = s.env.get(n)
            if isinstance(v, tuple) and v and v[0] == 'CONST':
                try:
                    c = ast.literal_eval(v[1])
                    return ([s], []) if c else ([], [s])
                except Exception:
                    pass
            return [s], [s]
        if isinstance(e, ast.Compare) and len(e.ops) == 1:
            # len(x) >= k / == k with k >= 1  =>  x non-empty on the true side
            l, r = e.left, e.comparators[0]
            is_len_of_tracked = (isinstance(l, ast.Call) and isinstance(l.func, ast.Name) and l.func.id == 'len'
                                 and len(l.args) == 1 and isinstance(l.args[0], ast.Name)
                                 and l.args[0].id in s.emp and isinstance(r, ast.Constant)
                                 and isinstance(r.value, int) and not isinstance(r.value, bool))
            # len(x) >= 1 / > 0 / != 0 is "x is non-empty"; len(x) == 0 / < 1 / <= 0 is "x is empty"
            if is_len_of_tracked:
                op, k = type(e.ops[0]), r.value
                nonempty = (op, k) in ((ast.GtE, 1), (ast.Gt, 0), (ast.NotEq, 0))
                empty = (op, k) in ((ast.Eq, 0), (ast.Lt, 1), (ast.LtE, 0))
                if nonempty or empty:
                    n = l.args[0].id
                    if s.emp[n] in ('N', 'E'):
                        holds = (s.emp[n] == 'N') == nonempty
                        return ([s], []) if holds else ([], [s])
                    a, b = s.copy(), s.copy()
                    a.emp[n], b.emp[n] = ('N', 'E') if nonempty else ('E', 'N')
                    return [a], [b]
            if (is_len_of_tracked and r.value >= 1
                    and isinstance(e.ops[0], (ast.GtE, ast.Eq, ast.Gt))):
                n = l.args[0].id
                if s.emp[n] == 'E':
                    return [], [s]
                a = s.copy()
                a.emp[n] = 'N'
                return [a], [s]
            lv, rv = self.val(l, s), self.val(r, s)
            if lv == rv and isinstance(e.ops[0], (ast.Eq, ast.LtE, ast.GtE)) and lv[0] != 'TOP':
                return [s], []
            if lv == rv and isinstance(e.ops[0], (ast.NotEq, ast.Lt, ast.Gt)) and lv[0] != 'TOP':
                return [], [s]
            return [s], [s]
        return [s], [s]

    # ---- statements
    def block(self, stmts, states):
        res = {'next': set(states), 'break': set(), 'continue': set()}
        for st in stmts:
            cur = res['next']
            res['next'] = set()
            if not cur:
                break
            for s in cur:
                o = self.stmt(st, s)
                for k in res:
                    res[k] |= o.get(k, set())
        return res

    def child(self, st, s, request=None):
        v = st.value
        tgt = st.targets[0]
        ok_shape = (isinstance(tgt, ast.Tuple) and [getattr(x, 'id', None) for x in tgt.elts]
                    == ['_status', '_result', '_pos'])
        if request is not None:
            slot, c = request, _WEAKEST
        else:
            slot = v.args[0].value
            if slot not in self.children:
                raise AnalysisError(f'skeleton mentions unknown child slot {slot!r}')
            if not ok_shape or len(v.args) != 2 or not (
                    isinstance(v.args[1], ast.Name) and v.args[1].id == '_pos'):
                raise Unsupported('child marker in unexpected shape')
            c = self.children[slot]
        self.starts.append((slot, s))
        outs = []
        ok = s.copy()
        ok.st = True
        ok.env['_result'] = ('OK', slot)
        ok.env['_pos'] = ('SUCC', slot)
        if ok.hist is not None:
            ok.hist = ok.hist + ((slot, True),)
        outs.append(ok)
        if not c.AS:
            f = s.copy()
            f.st = False
            f.env['_result'] = ('ERR', slot)
            if c.CP:
                f.env['_pos'] = ('FAIL', slot)
            if f.hist is not None:
                f.hist = f.hist + ((slot, False),)
            outs.append(f)
        if self.hooks is not None:
            outs = self.hooks.on_child(self, slot, s, outs)
        return {'next': set(outs)}

    def request_of(self, st, s):
        """`(_status, _result, _pos) = yield (TAG, callee, pos)` -> slot name or None"""
        if not (isinstance(st.value, ast.Yield) and len(st.targets) == 1):
            return None
        tgt = st.targets[0]
        if not (isinstance(tgt, ast.Tuple) and [getattr(x, 'id', None) for x in tgt.elts]
                == ['_status', '_result', '_pos']):
            return None
        y = st.value.value
        if not (isinstance(y, ast.Tuple) and len(y.elts) == 3):
            return None
        callee = self.val(y.elts[1], s)
        self.requests.append((self.val(y.elts[0], s), callee, self.val(y.elts[2], s), s, st))
        return 'REQ'

    def stmt(self, st, s):
        if isinstance(st, (ast.If, ast.While)):
            k = (id(st), s)
            r = self.memo.get(k)
            if r is None:
                r = self.stmt_(st, s)
                self.memo[k] = r
            return r
        return self.stmt_(st, s)

    def stmt_(self, st, s):
        self.nstates += 1
        if self.nstates > MAX_STATES:
            raise AnalysisError('abstract state budget exceeded')
        N = lambda *ss: {'next': set(ss)}
        if isinstance(st, ast.Assign):
            if is_child_marker(st):
                return self.child(st, s)
            req = self.request_of(st, s)
            if req is not None:
                return self.child(st, s, request=req)
            s = s.copy()
            self.effects(st.value, s, st)
            val = self.val(st.value, s)
            for y in ast.walk(st.value):
                if isinstance(y, ast.Yield) and isinstance(y.value, ast.Tuple) and len(y.value.elts) == 3:
                    e = y.value.elts
                    self.requests.append((self.val(e[0], s), self.val(e[1], s), self.val(e[2], s), s, st))
            for t in st.targets:
                self.store(t, st.value, val, s, st)
            return N(s)
        if isinstance(st, ast.AugAssign):
            s = s.copy()
            load_t = ast.parse(ast.unparse(st.target), mode='eval').body
            val = ('OP', type(st.op).__name__, self.val(load_t, s), self.val(st.value, s))
            self.store(st.target, st.value, val, s, st)
            return N(s)
        if isinstance(st, ast.Expr):
            v = st.value
            if isinstance(v, ast.Yield):
                self.exits.append(('yield', s, st))
                return N(s)
            if isinstance(v, ast.Constant):
                return N(s)
            s = s.copy()
            self.effects(v, s, st)
            return N(s)
        if isinstance(st, ast.If):
            res = {'next': set(), 'break': set(), 'continue': set()}
            self.tests.append((st, s))
            if isinstance(st.test, ast.Constant) and not isinstance(st.test.value, bool):
                self.notes.append(f'constant condition `{ast.unparse(st.test)[:60]}`')
            a, b = self.branches(st.test, s)
            if a and b and s.hist is not None:
                # `if not C` is recorded as the decision C with the opposite outcome
                core, neg = st.test, False
                while isinstance(core, ast.UnaryOp) and isinstance(core.op, ast.Not):
                    core, neg = core.operand, not neg
                tv = self.val(core, s)
                a = [self._with_hist(x, ('T', tv, not neg)) for x in a]
                b = [self._with_hist(x, ('T', tv, neg)) for x in b]
            if self.hooks is not None:
                a, b = self.hooks.on_test(self, st, s, a, b)
            for x in a:
                o = self.block(st.body, {x})
                for k in res:
                    res[k] |= o[k]
            for x in b:
                o = self.block(st.orelse, {x})
                for k in res:
                    res[k] |= o[k]
            return res
        if isinstance(st, ast.While):
            if st.orelse:
                raise Unsupported('while/else in emitted skeleton')
            seen, work, exits = set(), [(s, False)], set()
            dead = [n for n in ('_result', '_status') if dead_at_head(st.body, n)] \
                if isinstance(st.test, ast.Constant) and st.test.value is True else []
            while work:
                h, via_back = work.pop()
                if dead:
                    h = h.copy()
                    if '_result' in dead:
                        h.env['_result'] = 'DEAD'
                    if '_status' in dead:
                        h.st = None
                        h.env.pop('_status', None)
                if h in seen:
                    continue
                seen.add(h)
                if via_back:
                    self.back_edges += 1
                    if self.use_hist:
                        raise AnalysisError('history mode used on a skeleton with a real loop')
                self.tests.append((st, h))
                a, b = self.branches(st.test, h)
                if self.hooks is not None:
                    a, b = self.hooks.on_test(self, st, h, a, b)
                exits |= set(b)
                for x in a:
                    o = self.block(st.body, {x})
                    exits |= o['break']
                    for y in o['next'] | o['continue']:
                        work.append((y, True))
            return {'next': exits}
        if isinstance(st, ast.For):
            # a loop over a literal display of constants runs a known number of times (the generator uses
            # `for _ in (0,)` style blocks as "run once, leave early with break"): unrolled
            it = st.iter
            if st.orelse or not (isinstance(it, (ast.Tuple, ast.List)) and len(it.elts) <= 4
                                 and all(isinstance(e, ast.Constant) for e in it.elts)):
                raise Unsupported('statement For in emitted skeleton')
            cur, exits = {s}, set()
            for e in it.elts:
                nxt = set()
                for x in cur:
                    x = x.copy()
                    self.store(st.target, e, self.val(e, x), x, st)
                    o = self.block(st.body, {x})
                    exits |= o['break']
                    nxt |= o['next'] | o['continue']
                cur = nxt
            return {'next': exits | cur}
        if isinstance(st, ast.Break):
            return {'break': {s}}
        if isinstance(st, ast.Continue):
            return {'continue': {s}}
        if isinstance(st, ast.Pass):
            return N(s)
        if isinstance(st, ast.Return):
            self.exits.append(('return', s, st))
            return {}
        if isinstance(st, ast.Raise):
            self.exits.append(('raise', s, st))
            return {}
        if isinstance(st, (ast.FunctionDef, ast.ClassDef, ast.Import, ast.ImportFrom, ast.Global, ast.Nonlocal)):
            return N(s)
        raise Unsupported(f'statement {type(st).__name__} in emitted skeleton')

    def _with_hist(self, s, item):
        s = s.copy()
        s.hist = s.hist + (item,)
        return s

    def event(self, kind, name, st, s, val=None):
        if kind in ('attrstore', 'substore'):
            self.events.append((kind, name, st, s.copy(), val))
        if self.hooks is not None:
            self.hooks.on_event(self, kind, name, st, s, val)

    def effects(self, v, s, st):
        """list mutations inside an expression"""
        for n in ast.walk(v):
            if (isinstance(n, ast.Call) and isinstance(n.func, ast.Attribute)
                    and isinstance(n.func.value, ast.Name)):
                name, meth = n.func.value.id, n.func.attr
                if meth == 'append' and len(n.args) == 1:
                    item = self.val(n.args[0], s)
                    if depth(item) > 3:
                        item = ('TOP',)
                    self.event('append', name, st, s, item)
                    cur = s.env.get(name)
                    items = cur[1] if isinstance(cur, tuple) and cur and cur[0] == 'LISTOF' else frozenset()
                    if name in self.tracked:
                        s.env[name] = ('LISTOF', frozenset(items | {item}))
                    s.emp[name] = 'N'
                elif meth == 'pop':
                    self.event('pop', name, st, s)
                    if name in s.emp:
                        s.emp[name] = '?'
                elif meth in ('extend', 'insert', 'clear', 'remove', 'sort', 'reverse', 'update',
                              'add', 'discard', 'setdefault', 'popitem'):
                    self.event(meth, name, st, s)
                    if name in s.emp:
                        s.emp[name] = '?'
                    if name in self.tracked:
                        s.env[name] = ('TOP',)

    def store(self, t, vnode, val, s, st):
        if isinstance(t, ast.Name):
            n = t.id
            self.event('assign', n, st, s, val)
            s.bl.pop(n, None)
            if n == '_status':
                if isinstance(vnode, ast.Constant) and isinstance(vnode.value, bool):
                    s.st = vnode.value
                else:
                    s.st = None
                    s.env['_status'] = val
                return
            if isinstance(vnode, ast.Constant) and isinstance(vnode.value, bool):
                s.bl[n] = vnode.value
                s.env.pop(n, None)
                s.emp.pop(n, None)
                return
            if isinstance(vnode, ast.List) and not vnode.elts:
                s.emp[n] = 'E'
                if n in self.tracked:
                    s.env[n] = ('LISTOF', frozenset())
                return
            if n in self.tracked:
                s.env[n] = val
            else:
                s.env.pop(n, None)
            if isinstance(vnode, ast.Name) and vnode.id in s.emp:
                s.emp[n] = s.emp[vnode.id]
            elif isinstance(vnode, ast.Name) and vnode.id in s.bl:
                s.bl[n] = s.bl[vnode.id]
                s.env.pop(n, None)
            elif isinstance(vnode, (ast.List, ast.Tuple)):
                s.emp[n] = 'N' if vnode.elts else 'E'
            elif n in s.emp:
                s.emp[n] = '?'
        elif isinstance(t, (ast.Tuple, ast.List)):
            if isinstance(vnode, (ast.Tuple, ast.List)) and len(vnode.elts) == len(t.elts):
                for a, b in zip(t.elts, vnode.elts):
                    self.store(a, b, self.val(b, s), s, st)
                return
            for i, x in enumerate(t.elts):
                self.store(x, ast.Constant(value=None) if False else _OPAQUE, ('UNPACK', val, i), s, st)
        elif isinstance(t, ast.Attribute):
            self.event('attrstore', ast.unparse(t), st, s, val)
        elif isinstance(t, ast.Subscript):
            self.event('substore', ast.unparse(t), st, s, val)
        else:
            raise Unsupported(f'store target {type(t).__name__} in emitted skeleton')


_OPAQUE = ast.Name(id='__opaque__', ctx=ast.Load())


class _Weakest:
    AS = False
    CP = True


_WEAKEST = _Weakest()


class Hooks:
    """ghost-state hooks; ghost entries live in St.bl under keys starting with '#'"""

    def on_child(self, flow, slot, pre, outs):
        return outs

    def on_event(self, flow, kind, name, node, s, val):
        pass

    def on_test(self, flow, node, s, trues, falses):
        return trues, falses


def dead_at_head(body, name):
    """True when every path from the head of `body` overwrites register `name` before
    reading it (conservative: False when unsure)"""
    for st in body:
        if is_child_marker(st):
            return True
        mentions = [n for n in ast.walk(st) if isinstance(n, ast.Name) and n.id == name]
        if not mentions:
            if isinstance(st, (ast.Break, ast.Continue, ast.Return, ast.Raise)):
                return False
            if any(isinstance(n, (ast.Break, ast.Continue, ast.Return, ast.Raise, ast.Yield))
                   for n in ast.walk(st)):
                return False
            continue
        if isinstance(st, ast.While) and isinstance(st.test, ast.Constant) and st.test.value is True:
            return dead_at_head(st.body, name)
        if isinstance(st, ast.Assign):
            reads = [n for n in ast.walk(st.value) if isinstance(n, ast.Name) and n.id == name]
            if reads:
                return False
            stores = [n for t in st.targets for n in ast.walk(t)
                      if isinstance(n, ast.Name) and n.id == name and isinstance(n.ctx, ast.Store)]
            if stores and all(isinstance(n.ctx, ast.Store) for n in mentions):
                return True
        return False
    return False


def has_real_loop(stmts, children):
    """True when some path takes a back edge."""
    f = Flow(stmts, children, use_hist=False)
    f.run()
    return f.back_edges > 0
