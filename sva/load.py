"""Source loader: reads /repo's current working tree (never imports it).

* expression modules      sourcer/expressions/*.py           -> ast
* translator              sourcer/translator.py              -> ast + template constants
* runtime templates       instantiated with string.Template for ctx in ('', '_ctx, ')
* shipped parser          sourcer/parser.py                  -> ast / text
* outsourcer (3rd party)  loaded *by file path* and used as the model of itself
"""
import ast
import glob
import hashlib
import importlib.util
import os
from string import Template

from .common import REPO, VERIF, AnalysisError

TEMPLATE_NAMES = ['_program_setup', '_main_template', '_context_section',
                  '_subgrammar_setup', '_subgrammar_body']

_cache = {}


def repo_path(*parts):
    return os.path.join(REPO, *parts)


def read(rel):
    key = ('read', rel)
    if key not in _cache:
        p = repo_path(rel)
        if not os.path.exists(p):
            raise AnalysisError(f'anchor file missing: {rel}')
        with open(p, encoding='utf-8') as f:
            _cache[key] = f.read()
    return _cache[key]


def parse(rel):
    key = ('ast', rel)
    if key not in _cache:
        try:
            _cache[key] = ast.parse(read(rel), rel)
        except SyntaxError as e:
            raise AnalysisError(f'{rel} does not parse: {e}')
    return _cache[key]


def expression_files():
    files = sorted(glob.glob(repo_path('sourcer', 'expressions', '*.py')))
    if not files:
        raise AnalysisError('no files under sourcer/expressions')
    return [os.path.relpath(f, REPO) for f in files]


def load_outsourcer():
    """The real outsourcer module (not part of the repository), loaded by path."""
    if 'outsourcer' in _cache:
        return _cache['outsourcer']
    cands = sorted(glob.glob('/venv/lib/python3*/site-packages/outsourcer.py'))
    cands.append(os.path.join(VERIF, 'sva', 'vendor', 'outsourcer.py'))
    for p in cands:
        if os.path.exists(p):
            spec = importlib.util.spec_from_file_location('outsourcer', p)
            m = importlib.util.module_from_spec(spec)
            spec.loader.exec_module(m)
            with open(p, 'rb') as f:
                m.__verif_digest__ = hashlib.sha1(f.read()).hexdigest()[:12]
            m.__verif_path__ = p
            _cache['outsourcer'] = m
            return m
    raise AnalysisError('outsourcer.py not found (third-party dependency of the repo)')


def translator_templates():
    """name -> raw template text, from module-level string constants of translator.py"""
    key = 'templates'
    if key in _cache:
        return _cache[key]
    tree = parse('sourcer/translator.py')
    out = {}
    for n in tree.body:
        if (isinstance(n, ast.Assign) and len(n.targets) == 1
                and isinstance(n.targets[0], ast.Name)
                and isinstance(n.value, ast.Constant) and isinstance(n.value.value, str)):
            out[n.targets[0].id] = n.value.value
    missing = [t for t in TEMPLATE_NAMES if t not in out]
    if missing:
        raise AnalysisError(f'template constants missing from translator.py: {missing}')
    _cache[key] = out
    return out


def call_constant():
    """Value of constants.CALL read from the AST."""
    tree = parse('sourcer/expressions/constants.py')
    for n in tree.body:
        if isinstance(n, ast.Assign) and any(
                isinstance(t, ast.Name) and t.id == 'CALL' for t in n.targets):
            try:
                return ast.literal_eval(n.value)
            except Exception:
                raise AnalysisError('constants.CALL is not a literal')
    raise AnalysisError('constants.CALL not found')


def runtime_source(uses_context, sub=False, start='_try_start', super_module='parentmod'):
    """Instantiated runtime module text for one calling convention."""
    t = translator_templates()
    ctx = '_ctx, ' if uses_context else ''
    try:
        if sub:
            return (Template(t['_subgrammar_setup']).substitute(super_module=super_module)
                    + Template(t['_subgrammar_body']).substitute(start=start))
        src = t['_program_setup']
        if uses_context:
            src += t['_context_section']
        src += Template(t['_main_template']).substitute(
            CALL=call_constant(), ctx=ctx, start=start)
        return src
    except (KeyError, ValueError) as e:
        raise AnalysisError(f'template placeholders changed: {e!r}')


def runtime_ast(uses_context, sub=False):
    key = ('rt', uses_context, sub)
    if key not in _cache:
        src = runtime_source(uses_context, sub)
        try:
            _cache[key] = (ast.parse(src), src)
        except SyntaxError as e:
            raise AnalysisError(f'instantiated runtime template does not parse: {e}')
    return _cache[key]


def functions_of(tree):
    """qualified name -> FunctionDef for a module ast (Class.method, outer.<locals>.inner)."""
    out = {}

    def walk(body, prefix):
        for n in body:
            if isinstance(n, (ast.FunctionDef, ast.AsyncFunctionDef)):
                out[prefix + n.name] = n
                walk(n.body, prefix + n.name + '.<locals>.')
            elif isinstance(n, ast.ClassDef):
                walk(n.body, prefix + n.name + '.')
            elif isinstance(n, (ast.If, ast.Try, ast.With, ast.For, ast.While)):
                for fld in ('body', 'orelse', 'finalbody'):
                    walk(getattr(n, fld, []) or [], prefix)
                for h in getattr(n, 'handlers', []) or []:
                    walk(h.body, prefix)
    walk(tree.body, '')
    return out


def classes_of(tree):
    return {n.name: n for n in ast.walk(tree) if isinstance(n, ast.ClassDef)}


def parser_runtime_functions():
    """Functions/classes of the runtime embedded in the shipped sourcer/parser.py."""
    return parse('sourcer/parser.py')
