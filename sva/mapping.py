def literal_rules(rep):
    pass
