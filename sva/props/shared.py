"""Pieces shared by several property modules."""
from ..common import Finding, AnalysisError

def driver_memo_per_call(rep, rule_id='DRIVER-memo-per-call'):
    """values computed in one parse (for a let variable, a field, a count ...) can reach a later parse
    only through state that outlives the driver call: the memo is a fresh local dictionary of each
    call (rule C07-memo-local, reported here under the calling property)"""
    import ast as _ast
    from .. import routes, trampoline, load
    from ..common import Finding
    rep.rule(rule_id, 'the memo is a fresh local dictionary of each driver call')
    for what, tree, rel in routes.runtime_subjects():
        dname, dfn, dcall = trampoline.find_trampoline(tree, what)
        cc = load.call_constant()
        for x in _ast.walk(dfn):
            if isinstance(x, _ast.Compare) and isinstance(x.left, _ast.Subscript) \
                    and isinstance(x.comparators[0], _ast.Constant):
                cc = x.comparators[0].value
        _, tbad, _ = trampoline.analyse(dfn, cc, bool(dfn.args.args and dfn.args.args[0].arg == '_ctx'), what)
        rep.count('driver copies checked for a per-call memo')
        for rule, msg in tbad:
            if rule == 'C07-memo-local':
                rep.add(Finding(rule_id, f'{rel}:runtime', '', msg, f'{rel} ({what})'))


RULE_TEXT = {
    'F0-flags-exclusive': 'no class reports always_succeeds() and can_partially_succeed() together',
    'G1-no-trace': 'FAIL(c) never in prov(_pos) at a child start or a success exit',
    'G2-as-sound': 'always_succeeds() True => the skeleton has no failure exit',
    'G2-cp-sound': 'can_partially_succeed() False => every failure exit leaves _pos at ENTRY',
    'G3-protocol': 'every exit has a definite _status; failure => _result is an error function; '
                   'success => it is not',
    'G5-local-stores': 'emitted rule code stores only through locals of the rule function',
    'G6-temp-unique': 'a scratch local that is live across a sub-expression is a register, a user name or a temporary '
                      'numbered by the builder (unique per instance)',
    'S-flow': 'position provenance at child starts and success exits follows the PEG table',
    'S-value': 'value provenance at success exits follows the PEG table',
    'S-choice-order': 'option i+1 is reachable only when options 1..i failed; first success commits',
    'S-literal': 'literal matchers: accepted match idiom, exactly one success and one failure exit',
    'S-literal-end': 'a literal ends at _pos+len(value) / match.end() / _pos+1, wrapped in the '
                     'ignore request iff skip_ignored',
    'S-skip-restart': 'Skip restarts from its first pattern after every successful pattern',
    'S-list-max': 'the upper-bound test lies on every path from an append to the next element attempt',
    'S-list-min': 'the lower-bound test guards every success exit',
    'S-sep-trailer': 'a trailing separator is consumed iff allow_trailer',
    'S-sep-empty': 'allow_empty=False => no success exit with an empty result',
    'S-sep-require': 'require_separator => success only after a separator (or empty, if allowed)',
    'S-optable-end': 'an operator table ends after an operand or a postfix operator',
    'S-optable-end-terminal': 'after restoring the position saved before a consumed operator no '
                              'child is started (the expression has ended)',
    'S-binder': 'a bound name holds the value of its expression at the start of every later child',
    'S-span': 'the recorded span is (entry position, exit position) on the new instance',
}


def describe_rules(rep, only=None):
    for k, v in RULE_TEXT.items():
        if only is None or k in only:
            rep.rule(k, v)


def literal_mapping(rep):
    from .. import mapping
    mapping.literal_rules(rep)


def controls_e1(rep):
    from .. import controls
    controls.e1_controls(rep)


def entry_closure_rule(rep, mods=None):
    """C20 / C05: a class parameter denotes the value passed to `C.parse(args)`; the generated entry closure binds
    text/pos/fullparse itself, so user parameters must be captured outside it"""
    import ast
    from .. import modroute, routes
    from ..common import Finding
    if mods is None:
        mods = routes.emitted_modules()[1]
    # entry closures: the generated lambda binds text/pos/fullparse; user parameters of a class must
    # be captured *outside* it, otherwise a parameter named text/pos/fullparse is shadowed
    rep.rule('NAME-entry-shadow', 'user parameters are not read inside the generated entry closure')
    n_entry = 0
    for m in mods:
        if not isinstance(m, modroute.Emitted) or getattr(m, 'route', '') == 'shipped-parser':
            continue            # the shipped parser's user names (the metagrammar's) are not known here
        for cname, cls in m.classes.items():
            for meth in cls.body:
                if isinstance(meth, ast.FunctionDef) and meth.name == 'parse' and meth.args.args \
                        and [a.arg for a in meth.args.args] != ['text', 'pos', 'fullparse']:
                    user = {a.arg for a in meth.args.args}
                    for lam in [x for x in ast.walk(meth) if isinstance(x, ast.Lambda)]:
                        n_entry += 1
                        bound = {a.arg for a in lam.args.args}
                        used = {x.id for x in ast.walk(lam.body) if isinstance(x, ast.Name)}
                        hit = sorted((used & user))
                        rep.oblige(not hit)
                        if hit:
                            rep.add(Finding('NAME-entry-shadow', 'class-entry', 'parse',
                                            f'{m.label}: {cname}.parse reads the class parameter(s) {hit} inside the '
                                            f'entry closure `lambda {", ".join(sorted(bound))}: ...`: a parameter '
                                            f'named text, pos or fullparse is shadowed by the closure\'s own parameter',
                                            'sourcer/expressions/class_.py:Class._compile_class_body'))
    rep.count('entry closures examined', n_entry)
    rep.floor('entry closures examined', n_entry, 4)
