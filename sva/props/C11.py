"""C11 - behaviour independent of how the module was produced."""
import ast

from ..common import Finding, AnalysisError
from .. import load, routes, modroute
from . import C13


def include_source_rule(rep):
    tree = load.parse('sourcer/grammar.py')
    g = load.functions_of(tree).get('Grammar')
    if g is None:
        raise AnalysisError('anchor grammar.Grammar vanished')
    # def-use: the flag (and every local computed from it) may only flow into the `source_var`
    # argument; it must not decide a branch or reach any other call
    tainted = {'include_source'}
    sink = set()
    for n in ast.walk(g):
        if isinstance(n, ast.keyword) and n.arg == 'source_var':
            sink |= {id(x) for x in ast.walk(n.value)}
    changed = True
    while changed:
        changed = False
        for n in ast.walk(g):
            if isinstance(n, ast.Assign) and any(isinstance(x, ast.Name) and x.id in tainted and id(x) not in sink
                                                 for x in ast.walk(n.value)):
                for t in n.targets:
                    if isinstance(t, ast.Name) and t.id not in tainted:
                        tainted.add(t.id)
                        changed = True
    ok_nodes = set()
    for n in ast.walk(g):
        if isinstance(n, ast.keyword) and n.arg == 'source_var':
            ok_nodes |= {id(x) for x in ast.walk(n.value)}
        if isinstance(n, ast.Assign) and any(isinstance(t, ast.Name) and t.id in tainted for t in n.targets):
            ok_nodes |= {id(x) for x in ast.walk(n.value)}
    uses = [n for n in ast.walk(g) if isinstance(n, ast.Name) and n.id in tainted and isinstance(n.ctx, ast.Load)]
    rep.count('uses of include_source (and locals computed from it)', len(uses))
    stray = [n for n in uses if id(n) not in ok_nodes]
    rep.oblige(not stray)
    if stray:
        rep.add(Finding('SRC-flag', 'sourcer/grammar.py:Grammar', 'include_source',
                        f'include_source (or a value computed from it: {sorted(tainted)}) is used at line '
                        f'{stray[0].lineno} outside the source_var argument: requesting the source must not '
                        f'influence the module', 'sourcer/grammar.py:Grammar'))


def description_verbatim(rep):
    """The named and the unnamed variant of a grammar differ by the header line only, so what reaches the
    metagrammar parser must be the caller's text itself: any normalisation between `Grammar(description)` and
    `parser.parse(...)` (dedent, strip, expandtabs, re-encoding ...) acts on the whole text - header included -
    and can treat the two variants differently (textwrap.dedent removes the common margin: none when a header
    stands in column 0).  Def-use: the argument of parser.parse / _parse_grammar is a parameter of the enclosing
    function that is never rebound, or a module's __doc__."""
    tree = load.parse('sourcer/grammar.py')
    fns = load.functions_of(tree)
    n_sites = 0
    for fname, fn in fns.items():
        params = {a.arg for a in fn.args.args + fn.args.kwonlyargs}
        # names that hold a text as somebody wrote it: a parameter, a module's __doc__, or a local every
        # binding of which is one of these (no call, no operator in between)
        binds = {}
        opaque = set()
        for n in ast.walk(fn):
            if isinstance(n, ast.Assign):
                for t in n.targets:
                    if isinstance(t, ast.Name):
                        binds.setdefault(t.id, []).append(n.value)
                    else:
                        opaque |= {x.id for x in ast.walk(t) if isinstance(x, ast.Name) and isinstance(x.ctx, ast.Store)}
            elif isinstance(n, (ast.AugAssign, ast.AnnAssign, ast.For, ast.With, ast.NamedExpr)):
                tg = n.target if hasattr(n, 'target') else None
                for x in ast.walk(tg) if tg is not None else []:
                    if isinstance(x, ast.Name) and isinstance(x.ctx, ast.Store):
                        opaque.add(x.id)

        def verbatim(e, seen=()):
            if isinstance(e, ast.Attribute) and e.attr == '__doc__':
                return True
            if isinstance(e, ast.Name):
                if e.id in opaque or e.id in seen:
                    return e.id in seen and e.id not in opaque
                vals = binds.get(e.id, [])
                if e.id in params:
                    return all(verbatim(v, seen + (e.id,)) for v in vals)
                return bool(vals) and all(verbatim(v, seen + (e.id,)) for v in vals)
            return False
        for n in ast.walk(fn):
            if not isinstance(n, ast.Call):
                continue
            callee = ast.unparse(n.func)
            if callee not in ('parser.parse', '_parse_grammar') or not n.args:
                continue
            n_sites += 1
            a = n.args[0]
            ok = verbatim(a)
            rep.oblige(ok)
            if not ok:
                rep.add(Finding('DESC-verbatim', f'sourcer/grammar.py:{fname}', callee,
                                f'{fname} hands `{ast.unparse(a)[:80]}` to {callee}: the grammar text must reach the '
                                f'metagrammar parser as the caller wrote it; a normalisation of the whole text acts '
                                f'differently on the same grammar with and without a `grammar <name>` header',
                                f'sourcer/grammar.py:{fname}'))
    rep.count('description hand-over sites examined', n_sites)
    rep.floor('description hand-over sites examined', n_sites, 2)


def anonymous_name_only(fn, idcall):
    """the id() value flows only into the f-string that names an anonymous rule"""
    from .. import paths as P
    for n in ast.walk(fn):
        if isinstance(n, ast.JoinedStr) and any(x is idcall for x in ast.walk(n)):
            lit = ''.join(v.value for v in n.values if isinstance(v, ast.Constant))
            return lit.startswith('_anonymous_')
    # any other way of building the text (%, .format, +): the literal part starts with the reserved prefix
    for n in ast.walk(fn):
        if isinstance(n, (ast.Assign, ast.Return)) and n.value is not None and any(x is idcall for x in ast.walk(n.value)):
            parts = P.render_parts(P.Enumerator().val(n.value, {}))
            if parts and parts[0][0] == 'lit' and parts[0][1].startswith('_anonymous_'):
                return True
    return False


def determinism_rule(rep):
    """emitted text may depend on the description only: id() reaches just the name of anonymous
    rules (the recorded instance); no unordered set is iterated into emitted code unsorted"""
    n_id = 0
    for rel in ['sourcer/translator.py', 'sourcer/grammar.py'] + load.expression_files():
        tree = load.parse(rel)
        for fname, fn in load.functions_of(tree).items():
            set_names = set()
            for node in ast.walk(fn):
                if isinstance(node, ast.Assign) and isinstance(node.targets[0], ast.Name):
                    v = node.value
                    if isinstance(v, (ast.Set, ast.SetComp)) or (
                            isinstance(v, ast.Call) and (ast.unparse(v.func) in ('set', 'frozenset')
                                                        or ast.unparse(v.func).endswith('.freevars'))):
                        set_names.add(node.targets[0].id)
            def is_set_value(v):
                return isinstance(v, (ast.Set, ast.SetComp)) or (
                    isinstance(v, ast.Call) and (ast.unparse(v.func) in ('set', 'frozenset')
                                                 or ast.unparse(v.func).endswith('.freevars')))
            for node in ast.walk(fn):
                # tuple assignment `rules, ignored = [], set()`; anything `.add()`-ed to is a set as well
                if isinstance(node, ast.Assign) and isinstance(node.targets[0], ast.Tuple) \
                        and isinstance(node.value, ast.Tuple) and len(node.targets[0].elts) == len(node.value.elts):
                    for t, v in zip(node.targets[0].elts, node.value.elts):
                        if isinstance(t, ast.Name) and is_set_value(v):
                            set_names.add(t.id)
                if isinstance(node, ast.Call) and isinstance(node.func, ast.Attribute) and node.func.attr == 'add' \
                        and isinstance(node.func.value, ast.Name) and len(node.args) == 1:
                    set_names.add(node.func.value.id)
            for node in ast.walk(fn):
                if isinstance(node, ast.Call) and isinstance(node.func, ast.Name) and node.func.id in ('id', 'hash') \
                        and fname != 'assign_id':
                    n_id += 1
                    src = ast.unparse(node)
                    allowed = rel == 'sourcer/translator.py' and fname.split('.')[0] == 'generate_source_code' \
                        and isinstance(node.args[0] if node.args else None, ast.Name) and node.func.id == 'id' \
                        and anonymous_name_only(fn, node)
                    rep.oblige(allowed)
                    if not allowed:
                        rep.add(Finding('DETERMINISM', f'{rel}:{fname}', src,
                                        f'{rel}:{fname} uses {src}: a run-dependent value in the translation',
                                        f'{rel}:{fname} (line {node.lineno})'))
                iters = []
                if isinstance(node, (ast.For, ast.comprehension)):
                    iters.append(node.iter)
                if isinstance(node, ast.Call) and isinstance(node.func, ast.Attribute) and node.func.attr == 'join' \
                        and node.args:
                    iters.append(node.args[0])
                if isinstance(node, ast.Call) and isinstance(node.func, ast.Name) and node.func.id in ('list', 'tuple') \
                        and node.args:
                    iters.append(node.args[0])
                for it in iters:
                    direct = isinstance(it, ast.Name) and it.id in set_names
                    fv = isinstance(it, ast.Call) and ast.unparse(it.func).endswith('.freevars')
                    if direct or fv:
                        rep.add(Finding('DETERMINISM', f'{rel}:{fname}', ast.unparse(it),
                                        f'{rel}:{fname} iterates the set `{ast.unparse(it)}` without sorted(): the '
                                        f'order (and so the emitted text / parameter order) can differ between runs',
                                        f'{rel}:{fname} (line {it.lineno})'))
    rep.count('id()/hash() call sites examined', n_id)


def optimize_safe(rep):
    """Grammar() compiles with optimize=2 while the saved source runs unoptimised: no assert, no
    __debug__, no use of docstrings in the emitted module"""
    R, mods = routes.emitted_modules()
    n = 0
    for m in mods:
        if not isinstance(m, modroute.Emitted):
            continue
        n += 1
        for node in ast.walk(m.tree):
            bad = None
            if isinstance(node, ast.Assert):
                bad = 'an assert statement'
            elif isinstance(node, ast.Name) and node.id == '__debug__':
                bad = '__debug__'
            elif isinstance(node, ast.Attribute) and node.attr == '__doc__':
                bad = 'a read of __doc__'
            if bad:
                rep.add(Finding('OPTIMIZE-safe', 'emitted-module', m.label.split('[')[0],
                                f'{m.label}: the emitted module contains {bad} (line {node.lineno}): it behaves '
                                f'differently when compiled in memory with optimize=2 and when the saved source is '
                                f'executed', 'sourcer/translator.py (templates / emission)'))
    rep.count('emitted modules scanned for optimisation-dependent constructs', n)
    rep.oblige(True, n)


def run(rep, tier):
    rep.explanation = (
        'Every route grammar is emitted twice, with and without a grammar name (the only difference '
        'between the variants of the property that reaches the emitted text is uses_context). On every '
        'module: def/call conformance of every request, _ParseFunction, literal wrapper, spill helper '
        'and entry point in that convention; non-local references through _ctx in the context convention '
        'and no mention of a context otherwise; free-name closure (standard library + runtime only, '
        'parent module for extends); no optimisation-dependent construct. Translator: include_source '
        'reaches only source_var; id() reaches only the name of anonymous rules; no unsorted set '
        'iteration into emitted text.')
    rep.not_decided += ['equality of results between the variants on inputs']
    for rid, txt in [
        ('CONV-prefix', 'convention prefix on every parse function'), ('CONV-arity', 'def/call arity agreement'),
        ('CONV-hashable', 'hashable memo keys'), ('ENTRY-signature', 'entry signature in both conventions'),
        ('ENTRY-driver', 'entry points call the driver with the convention prefix'),
        ('SPILL-kind', 'spill helpers are invoked the way their kind requires'),
        ('WIRE-plain', 'plain-convention modules never mention a context'),
        ('WIRE-ctx', 'context attributes read are assigned'), ('FREE-name', 'free-name closure'),
        ('LATE-bound', 'non-local references go through _ctx'), ('SRC-flag', 'include_source only sets source_var'),
        ('DESC-verbatim', 'the grammar text reaches the metagrammar parser as the caller wrote it (no normalisation)'),
        ('DETERMINISM', 'no run-dependent value / unordered iteration reaches emitted text'),
        ('OPTIMIZE-safe', 'no assert / __debug__ / __doc__ in emitted modules'),
        ('ROUTE-raises', 'every route compiles in both conventions'),
    ]:
        rep.rule(rid, txt)
    found, stats, nmods = routes.run(rep, 'C11', ['CONV-', 'ENTRY-', 'SPILL-', 'WIRE-', 'FREE-name', 'SUPER-', 'ADAPTOR', 'SUBIMPORT-',
                                                   'LOCAL-shadow'])
    rep.floor('route modules emitted', nmods, 30)
    rep.floor('call sites examined', stats['callsites'], 250)
    C13.late_binding(rep)
    include_source_rule(rep)
    description_verbatim(rep)
    determinism_rule(rep)
    optimize_safe(rep)
    from .. import controls
    controls.route_controls(rep)
