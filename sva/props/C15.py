"""C15 - visit and traverse: path rules on the explicit-stack walkers."""
import ast

from ..common import Finding, AnalysisError
from .. import load, walkers


def subjects():
    from .. import routes
    return routes.runtime_subjects()


RULES = [
    ('C15-no-recursion', 'visit/traverse do not call themselves (explicit stack)'),
    ('C15-lifo', 'the work stack is consumed with a bare .pop(); every multi-element push is wrapped in reversed'),
    ('C15-dedup-leaves', 'the identity test id(x) in visited is dominated by an isinstance test for '
                         'ParsedObject/list/tuple/dict'),
    ('C15-dedup-identity', 'the visited set holds id(node) values and is queried with id(node)'),
    ('C15-dedup', 'a node that passes the identity test is recorded; parsed objects are yielded only after it'),
    ('C15-visit-yield', 'visit yields exactly the popped node, once, only if it is a ParsedObject'),
    ('C15-children', 'children pushed are exactly elements / dict values / getattr(node, f) for f in _fields'),
    ('C15-events', 'traverse: finished marker pushed before the children and yielded without re-expansion; '
                   'child records carry parent=node, field=index/key/name, child=element'),
]


def run(rep, tier):
    rep.explanation = (
        'Every acyclic path through one iteration of the work loops of visit() and traverse() is '
        'enumerated symbolically (work stack = the list consumed by a bare .pop(), found by role). '
        'Rules decide LIFO discipline with reversed pushes (siblings left to right, parents first), '
        'which children are pushed for each container kind, that identity de-duplication is applied '
        'only to expandable nodes and records what it admits, that traverse pushes the finished '
        'marker before the children and never re-expands it, and that neither function recurses. '
        'Checked for both template instantiations and the copy in sourcer/parser.py.')
    rep.not_decided += ['event sequences on concrete trees (follow from the per-iteration rules by '
                        'induction on the stack contents, not re-derived here)']
    for r, t in RULES:
        rep.rule(r, t)
    for what, tree, rel in subjects():
        fns = load.functions_of(tree)
        for name, chk in (('visit', walkers.check_visit), ('traverse', walkers.check_traverse)):
            if name not in fns:
                raise AnalysisError(f'{what}: anchor function {name} vanished')
            fn = fns[name]
            found = []
            stats = chk(fn, f'{what}:{name}', lambda rule, msg: found.append((rule, msg)))
            rep.count('walker functions analysed')
            rep.count('paths through walker loops', stats['loop_paths'])
            rep.obligations += len(RULES)
            rep.discharged += len(RULES) - len({r for r, _ in found})
            for rule, msg in found:
                rep.add(Finding(rule, f'{rel}:{name}', '', msg, f'{rel}:{name} (line {fn.lineno})',
                                {'function': ast.unparse(fn)}))
            rep.sample({'subject': f'{what}:{name}', 'paths': stats['loop_paths']})
    rep.floor('walker functions analysed', rep.instances.get('walker functions analysed', 0), 6)
    from .. import controls
    controls.walker_controls(rep)
