"""Path rules on the tree walkers of the runtime: visit, traverse (C15), transform (C16)."""
import ast

from .common import AnalysisError
from . import load
from . import paths as P

EXPANDABLE = {'list', 'tuple', 'dict', 'ParsedObject'}


def is_call(t, fname=None):
    return isinstance(t, tuple) and t[:1] == ('CALL',) and (fname is None or t[1] == ('VAR', fname))


def reversed_wrapped(t):
    """reversed(X) | comprehension/generator over reversed(X) | reversed(list(comprehension))"""
    if is_call(t, 'reversed') and len(t) == 3:
        return t[2]
    if isinstance(t, tuple) and t[:1] == ('COMP',):
        gens = [g for g in t[3:]]
        if len(gens) == 1 and is_call(gens[0][2], 'reversed'):
            return ('COMP', t[1], t[2], ('GEN', gens[0][1], gens[0][2][2]) + tuple(gens[0][3:]))
    return None


def strip_list(t):
    while is_call(t, 'list') and len(t) == 3:
        t = t[2]
    return t


def isinstance_types(term):
    """isinstance(X, T) -> (X, {type names}) or None"""
    if is_call(term, 'isinstance') and len(term) == 4:
        x, ty = term[2], term[3]
        names = set()
        if isinstance(ty, tuple) and ty[:1] == ('TUPLE',):
            for e in ty[1:]:
                if isinstance(e, tuple) and e[0] == 'VAR':
                    names.add(e[1])
                else:
                    return None
        elif isinstance(ty, tuple) and ty[0] == 'VAR':
            names.add(ty[1])
        else:
            return None
        return x, names
    return None


def path_types(bp, x, upto=None):
    """type names X is known to be an instance of on this path (positive isinstance tests,
    also inside `a and b`)"""
    out = None
    neg = set()
    for st in bp.steps:
        if upto is not None and st is upto:
            break
        if st[0] == 'T':
            it = isinstance_types(st[1])
            if it and it[0] == x:
                if st[2]:
                    out = set(it[1]) if out is None else (out & it[1] or out)
                else:
                    neg |= it[1]
    if out is None:
        return set()
    if not out - neg:
        return {'<infeasible>'}
    return out - neg


def falsy_parsed_objects():
    """classes of the subject module that are (subclasses of) ParsedObject and define `__bool__` or `__len__`:
    their instances can be falsy, so a truthiness test on a node is a test on the user's data"""
    out = []
    cls = P.MODULE_CLASSES

    def is_po(c, seen=()):
        if c.name == 'ParsedObject':
            return True
        for b in c.bases:
            bn = b.id if isinstance(b, ast.Name) else b.attr if isinstance(b, ast.Attribute) else None
            if bn == 'ParsedObject' or (bn in cls and bn not in seen and is_po(cls[bn], seen + (c.name,))):
                return True
        return False
    for c in cls.values():
        if is_po(c):
            for m in c.body:
                if isinstance(m, ast.FunctionDef) and m.name in ('__bool__', '__len__'):
                    out.append(f'{c.name}.{m.name}')
                elif isinstance(m, ast.Assign) and any(isinstance(t, ast.Name) and t.id in ('__bool__', '__len__')
                                                       for t in m.targets):
                    out.append(f'{c.name}.{m.targets[0].id}')
    return sorted(out)


def truthiness_decides(bp, x):
    """the path takes a decision on the truthiness of X itself (`if x:` / `if not x:` / `x and ...`) without
    knowing that X is not a parsed object"""
    decided = [st for st in bp.steps if st[0] == 'T' and (st[1] == x or st[1] == ('UOP', 'Not', x))]
    if not decided:
        return False
    known_not_po = any(st[0] == 'T' and not st[2] and (isinstance_types(st[1]) or (None, set()))[0] == x
                       and 'ParsedObject' in isinstance_types(st[1])[1] for st in bp.steps)
    known_po = 'ParsedObject' in path_types(bp, x, upto=decided[0])
    return not known_not_po or known_po


def dedup_test(step):
    """a branch decision `id(x) in visited` / `id(x) not in visited` -> (x-term-or-None, key term, visited,
    is_member) ; None if the step is no membership test"""
    if step[0] != 'T':
        return None
    t = step[1]
    if not (isinstance(t, tuple) and t[:1] == ('CMP',) and len(t) == 4 and t[1] in (('In',), ('NotIn',))):
        return None
    member = step[2] if t[1] == ('In',) else (not step[2])
    return t[2], t[3], member


def local_helpers(fn):
    return {n.name: n for n in fn.body if isinstance(n, ast.FunctionDef)} | {
        n.name: n for st in ast.walk(fn) for n in ([st] if isinstance(st, ast.FunctionDef) and st is not fn else [])}


def stack_loop(fn, what):
    E = P.Enumerator()
    paths = E.function(fn)
    loops = {}
    for p in paths:
        for s in p.steps:
            if s[0] == 'LOOP':
                loops[s[3]] = s
    cands = []
    for l in loops.values():
        pops = {e[2] for bp in l[2] for e in bp.events() if e[1] == 'call:pop'}
        if pops:
            cands.append((l, pops))
    if len(cands) != 1:
        raise AnalysisError(f'{what}: expected one work-stack loop, found {len(cands)}')
    loop, pops = cands[0]
    if len(pops) != 1:
        raise AnalysisError(f'{what}: several containers are popped in the loop')
    W = pops.pop()
    return paths, loop, W


def pushes(bp, W, helpers, E=None):
    """-> list of (kind, argterm, step) pushes onto W on this path, seeing through local
    one-statement helper functions"""
    out = []
    for st in bp.steps:
        if st[0] == 'E' and st[1] in ('call:extend', 'call:append', 'call:insert') and st[2] == W:
            out.append((st[1][5:], st[3], st))
        if st[0] == 'X' and is_call(st[1]) and isinstance(st[1][1], tuple) and st[1][1][:1] == ('LOCALDEF',):
            h = helpers.get(st[1][1][1])
            if h is None:
                raise AnalysisError(f'local helper {st[1][1][1]} not found')
            hp = P.Enumerator().function(h)
            params = [a.arg for a in h.args.args]
            if len(params) != len(st[1]) - 2:
                raise AnalysisError(f'local helper {h.name}: arity mismatch at call')
            sub = {('PARAM', n): v for n, v in zip(params, st[1][2:])}
            for q in hp:
                for e in q.events():
                    if e[1] in ('call:extend', 'call:append', 'call:insert') and (
                            e[2] == ('VAR', W[1]) if isinstance(W, tuple) and W[0] == 'OBJ' else False):
                        arg = tuple(substitute(a, sub) for a in e[3])
                        out.append((e[1][5:], arg, st))
    return out


def substitute(t, sub):
    if t in sub:
        return sub[t]
    if isinstance(t, tuple):
        return tuple(substitute(x, sub) for x in t)
    return t


def check_walker(fn, what, kind, bad):
    """kind: 'visit' | 'traverse'"""
    helpers = {n.name: n for n in ast.walk(fn) if isinstance(n, ast.FunctionDef) and n is not fn}
    paths, loop, W = stack_loop(fn, what)
    body = loop[2]
    stats = {'loop_paths': len(body)}
    # recursion
    for n in ast.walk(fn):
        if isinstance(n, ast.Call) and isinstance(n.func, ast.Name) and n.func.id == fn.name:
            bad('C15-no-recursion', f'{what} calls itself: depth is limited by the Python stack')
    # loop condition: while W
    node = loop[1]
    if isinstance(node, ast.While) and isinstance(node.test, ast.Name) and ('OBJ', node.test.id) == W:
        pass
    elif isinstance(node, ast.While) and isinstance(node.test, ast.Constant) and node.test.value is True:
        # `while True:` leaving through `if not <stack>: return/break` before anything else happens
        leave = [bp for bp in body if bp.end[0] in ('return', 'break') and bp.tests()
                 and bp.tests()[0][1] == W and not bp.tests()[0][2]
                 and not [s for s in bp.steps if s[0] in ('E', 'X', 'Y')]]
        stay = [bp for bp in body if bp not in leave]
        if not leave or not all(bp.tests() and bp.tests()[0][1] == W and bp.tests()[0][2]
                                and bp.steps.index(bp.tests()[0]) == 0 for bp in stay):
            raise AnalysisError(f'{what}: the work loop is neither `while <stack>` nor `while True` left by '
                                f'`if not <stack>` first thing')
        if any(bp.end[0] == 'return' and len(bp.end) > 1 and bp.end[1] != ('CONST', 'None') for bp in leave):
            raise AnalysisError(f'{what}: the work loop returns a value')
        body = stay
    else:
        raise AnalysisError(f'{what}: the work loop is not `while <stack>`')
    NODE = ('CALL', ('ATTR', W, 'pop'))
    for bp in body:
        pops = [e for e in bp.events() if e[1] == 'call:pop' and e[2] == W]
        if len(pops) != 1 or pops[0][3] != ():
            bad('C15-lifo', f'{what}: the work stack is not consumed with exactly one bare .pop() per '
                            f'iteration ({[P.tfmt(e[3]) for e in pops]})')
        for k, arg, st in pushes(bp, W, helpers):
            if k == 'insert':
                bad('C15-lifo', f'{what}: elements are inserted into the work stack (not LIFO)')
            if k == 'extend':
                a = strip_list(arg[0])
                inner = reversed_wrapped(a)
                if inner is None and is_call(a, 'reversed'):
                    inner = a[2]
                if inner is None:
                    bad('C15-lifo', f'{what}: several elements are pushed without `reversed` '
                                    f'({P.tfmt(arg[0])[:120]}): siblings would come out right to left')
        # de-duplication is by identity: the visited set holds id()s, never the nodes themselves
        # (ParsedObject.__eq__/__hash__ are structural: equal twins would be dropped)
        vis_sets = {e[2] for e in bp.events() if e[1] == 'call:add'}
        for e in bp.events():
            if e[1] == 'call:add' and not (len(e[3]) == 1 and is_call(e[3][0], 'id')):
                bad('C15-dedup-identity', f'{what}: the visited set records {P.tfmt(e[3][0]) if e[3] else "?"} '
                                          f'instead of id(node): de-duplication becomes structural '
                                          f'(distinct but equal objects are skipped, hashing recurses)')
        for st in bp.steps:
            d = dedup_test(st)
            if d and (d[1] in vis_sets or (isinstance(d[1], tuple) and d[1][:1] == ('OBJ',)
                                           and 'visit' in d[1][1])) and not is_call(d[0], 'id'):
                bad('C15-dedup-identity', f'{what}: membership in the visited set is tested on '
                                          f'{P.tfmt(d[0])} instead of id(node)')
        # identity de-duplication only for expandable nodes
        for st in bp.steps:
            d = dedup_test(st)
            if d and is_call(d[0], 'id') and len(d[0]) == 3:
                x = d[0][2]
                vis = d[1]
                types = path_types(bp, x, upto=st)
                if not types or not types <= EXPANDABLE:
                    bad('C15-dedup-leaves', f'{what}: the identity test `id(x) in visited` is applied to any '
                                            f'node, not only after an isinstance test for '
                                            f'ParsedObject/list/tuple/dict: equal leaf objects (None, small '
                                            f'ints, interned strings) are dropped after their first occurrence')
                if not d[2]:
                    adds = [e for e in bp.events() if e[1] == 'call:add' and e[2] == vis
                            and e[3] == (d[0],)]
                    if not adds:
                        bad('C15-dedup', f'{what}: a node that passed the identity test is not recorded '
                                         f'as visited: a shared object is expanded more than once')
    # the visited set only grows: an object stays "seen" for the whole walk (a later occurrence of a
    # shared object - also after its first expansion has finished - is not expanded again)
    all_vis = {e[2] for bp in body for e in bp.events() if e[1] == 'call:add'}
    # the visited set belongs to one walk: created by this call, not handed in and not a default argument (which is
    # created once per module - every later walk would find the objects of the earlier ones "already seen")
    params_ = {a.arg for a in fn.args.args + fn.args.kwonlyargs}
    for v in all_vis:
        nm = v[1] if isinstance(v, tuple) and len(v) > 1 and isinstance(v[1], str) else None
        if (isinstance(v, tuple) and v[:1] == ('PARAM',)) or (nm in params_):
            bad('C15-dedup', f'{what}: the visited set `{nm}` is a parameter of the walker'
                             + (' with a default created once per module' if fn.args.defaults or fn.args.kw_defaults else '')
                             + ': it outlives the walk, so a later walk skips what an earlier one has seen (and ids of '
                               'freed objects are reused)')
    shrink = ('call:discard', 'call:remove', 'call:pop', 'call:clear', 'call:difference_update',
              'call:intersection_update', 'call:symmetric_difference_update', 'call:__delitem__')
    for bp in body:
        for e in bp.events():
            if e[1] in shrink and e[2] in all_vis:
                bad('C15-dedup', f'{what}: the visited set shrinks ({P.tfmt(e[2])}.{e[1][5:]}) during the walk: a '
                                 f'shared object or container met again later is expanded a second time')
            if e[1] == 'assign' and ('OBJ', e[2]) in all_vis:
                bad('C15-dedup', f'{what}: the visited set {e[2]} is rebound inside the work loop')
        for s in bp.steps:
            if s[0] == 'E' and s[1] == 'del' and any(x in all_vis for x in P.subterms(s[2])):
                bad('C15-dedup', f'{what}: an entry of the visited set is deleted during the walk')
    return paths, body, W, NODE, helpers, stats


def check_visit(fn, what, bad):
    paths, body, W, NODE, helpers, stats = check_walker(fn, what, 'visit', bad)
    seen_kinds = set()
    falsy = falsy_parsed_objects()
    for bp in body:
        ys = [s for s in bp.steps if s[0] == 'Y']
        types = path_types(bp, NODE)
        ps = pushes(bp, W, helpers)
        if falsy and truthiness_decides(bp, NODE):
            bad('C15-visit-yield', f'{what}: what happens to a node depends on its truthiness, and parsed objects can '
                                   f'be falsy ({", ".join(falsy)}): an object that counts as empty is not treated as an '
                                   f'object (not yielded / not expanded)')
        if ys:
            if len(ys) != 1 or ys[0][1] != NODE:
                bad('C15-visit-yield', f'{what}: yields {[P.tfmt(y[1]) for y in ys]}, expected the popped node once')
            if 'ParsedObject' not in types:
                bad('C15-visit-yield', f'{what}: yields a node that was not tested to be a ParsedObject')
            dedup = [s for s in bp.tests() if dedup_test(s)]
            if not dedup:
                bad('C15-dedup', f'{what}: a parsed object is yielded without the identity test: shared '
                                 f'objects are yielded more than once')
        if types & {'list', 'tuple'} and not ys:
            seen_kinds.add('seq')
            if [strip_list(a[0]) for k, a, _ in ps] != [('CALL', ('VAR', 'reversed'), NODE)]:
                bad('C15-children', f'{what}: a list/tuple pushes {[P.tfmt(a[0])[:80] for k, a, _ in ps]}, '
                                    f'expected reversed(node)')
        elif 'dict' in types and not ys:
            seen_kinds.add('dict')
            want = ('CALL', ('VAR', 'reversed'), ('CALL', ('ATTR', NODE, 'values')))
            got = [strip_list(a[0]) for k, a, _ in ps]
            ok = got == [want] or got == [('CALL', ('VAR', 'reversed'), ('CALL', ('VAR', 'list'), want[2]))]
            if not ok:
                bad('C15-children', f'{what}: a dict pushes {[P.tfmt(g)[:80] for g in got]}, expected '
                                    f'reversed(node.values())')
        elif 'ParsedObject' in types and ys:
            seen_kinds.add('object')
            # children = getattr(node, f) for f in reversed(node._fields); guarded or not by hasattr
            if bp.end and bp.end[0] == 'continue':
                ok = False
                for k, a, _ in ps:
                    t = strip_list(a[0])
                    if isinstance(t, tuple) and t[:1] == ('COMP',) and len(t) == 4:
                        elt, gen = t[2], t[3]
                        if gen[2] == ('CALL', ('VAR', 'reversed'), ('ATTR', NODE, '_fields')) \
                                and elt == ('CALL', ('VAR', 'getattr'), NODE, ('ITEM', gen[1])):
                            ok = True
                has_fields = any(s[2] for s in bp.tests() if is_call(s[1], 'hasattr'))
                no_fields_test = not any(is_call(s[1], 'hasattr') for s in bp.tests())
                if (has_fields or no_fields_test) and not ok:
                    bad('C15-children', f'{what}: a parsed object pushes '
                                        f'{[P.tfmt(a[0])[:100] for k, a, _ in ps]}, expected '
                                        f'getattr(node, f) for f in reversed(node._fields)')
                if ys and ps:
                    yi = bp.steps.index(ys[0])
                    # parents first: nothing of this node's children may be yielded before it;
                    # guaranteed when the yield is in the iteration that popped the node.
    for need in ('seq', 'dict', 'object'):
        if need not in seen_kinds:
            bad('C15-children', f'{what}: no branch expands {need} nodes')
    return stats


def check_traverse(fn, what, bad):
    paths, body, W, REC, helpers, stats = check_walker(fn, what, 'traverse', bad)
    # the record may be unpacked instead of read by field name; comprehensions may be staged
    sig = P.RECORD_SIGS.get('_Traversing')
    unpack = {('UNPACK', REC, i): ('ATTR', REC, f) for i, f in enumerate(sig or ())}

    def norm_term(t):
        return P.fuse_comprehensions(substitute(t, unpack))
    body = [P.map_path(bp, norm_term) for bp in body]
    # the work list holds _Traversing records; a list of plain tuples that become records only when they are
    # handed out is another representation of the same walk, which these rules do not read
    for bp in body:
        for k, a, _ in pushes(bp, W, helpers):
            t0 = strip_list(a[0]) if a else None
            t0 = t0[2] if isinstance(t0, tuple) and t0[:1] == ('COMP',) and len(t0) == 4 else t0
            if isinstance(t0, tuple) and t0[:1] == ('TUPLE',):
                raise AnalysisError(f'{what}: the work list holds plain tuples ({P.tfmt(t0)[:60]}) instead of '
                                    f'_Traversing records (representation not covered)')
    fin = [bp for bp in body if any(s[2] and s[1] == ('ATTR', REC, 'is_finished') for s in bp.tests())]
    ent = [bp for bp in body if any((not s[2]) and s[1] == ('ATTR', REC, 'is_finished') for s in bp.tests())]
    if not fin or not ent:
        raise AnalysisError(f'{what}: cannot find the finished/entering split on <record>.is_finished')
    CHILD = ('ATTR', REC, 'child')
    for bp in fin:
        ys = [s for s in bp.steps if s[0] == 'Y']
        if [y[1] for y in ys] != [REC]:
            bad('C15-events', f'{what}: a finished marker yields {[P.tfmt(y[1]) for y in ys]}, expected itself once')
        if pushes(bp, W, helpers):
            bad('C15-events', f'{what}: a finished marker is expanded again')
    kinds = set()
    falsy = falsy_parsed_objects()
    for bp in ent:
        ys = [s for s in bp.steps if s[0] == 'Y']
        ps = pushes(bp, W, helpers)
        if falsy and truthiness_decides(bp, CHILD):
            bad('C15-events', f'{what}: what happens to a child depends on its truthiness, and parsed objects can be '
                              f'falsy ({", ".join(falsy)})')
        skipped = bp.end and bp.end[0] == 'continue' and not ys and not ps
        if skipped:
            continue
        if [y[1] for y in ys] != [REC]:
            bad('C15-events', f'{what}: an entering record yields {[P.tfmt(y[1]) for y in ys]}, expected itself once')
        marker = [i for i, (k, a, st) in enumerate(ps) if k == 'append'
                  and is_call(a[0]) and a[0][1] == ('ATTR', REC, '_replace')
                  and ('KW', 'is_finished', ('CONST', 'True')) in a[0][2:]]
        if len(marker) != 1:
            bad('C15-events', f'{what}: an entering record does not push exactly one finished marker '
                              f'(record._replace(is_finished=True))')
        elif marker[0] != 0:
            bad('C15-events', f'{what}: the finished marker is pushed after the children: the finished '
                              f'event would come before the children\'s events')
        types = path_types(bp, CHILD)
        if types == {'<infeasible>'}:
            continue
        kids = [(k, a) for i, (k, a, st) in enumerate(ps) if i not in marker]
        if kids:
            # whatever is expanded was first looked up in - and recorded into - the visited set
            fresh = [d for d in (dedup_test(s) for s in bp.steps) if d and is_call(d[0], 'id')
                     and d[0][2:] == (CHILD,) and not d[2]]
            if not fresh:
                bad('C15-dedup', f'{what}: children of a {sorted(types & EXPANDABLE) or sorted(types)} node are pushed '
                                 f'on a path that did not pass the identity test `id(child) in visited`: a shared '
                                 f'container of that kind is expanded every time it is met')
        if any((not s[2]) and is_call(s[1], 'hasattr') and s[1][2:] == (CHILD, ('CONST', "'_fields'"))
               for s in bp.tests()):
            # an object without a field table has no children
            if kids:
                bad('C15-events', f'{what}: an object without _fields pushes children')
            continue
        if not types & EXPANDABLE:
            if kids:
                bad('C15-events', f'{what}: a leaf pushes children')
            continue

        def rec(parent, field, child):
            return ('CALL', ('VAR', '_Traversing'), ('KW', 'parent', parent), ('KW', 'field', field),
                    ('KW', 'child', child), ('KW', 'is_finished', ('CONST', 'False')))

        def norm(t):
            if is_call(t, '_Traversing'):
                kws = sorted([x for x in t[2:] if isinstance(x, tuple) and x[:1] == ('KW',)])
                if len(kws) == len(t) - 2:
                    order = {'parent': 0, 'field': 1, 'child': 2, 'is_finished': 3}
                    kws = sorted(kws, key=lambda k: order.get(k[1], 9))
                    return ('CALL', ('VAR', '_Traversing')) + tuple(kws)
                if len(t) == 6 and not kws:
                    return rec(*t[2:5]) if t[5] == ('CONST', 'False') else t
            return t
        want = None
        if types & {'list', 'tuple'}:
            kinds.add('seq')
            want = (rec(CHILD, ('ITEM', 'i'), ('ITEM', 'x')), ('CALL', ('VAR', 'enumerate'), CHILD), 2)
        elif 'dict' in types:
            kinds.add('dict')
            want = (rec(CHILD, ('ITEM', 'k'), ('ITEM', 'v')), ('CALL', ('ATTR', CHILD, 'items')), 2)
        elif 'ParsedObject' in types:
            kinds.add('object')
            want = (rec(CHILD, ('ITEM', 'x'), ('CALL', ('VAR', 'getattr'), CHILD, ('ITEM', 'x'))),
                    ('ATTR', CHILD, '_fields'), 1)
        ok = False
        for k, a in kids:
            if k != 'extend':
                continue
            t = strip_list(a[0])
            rv = t[2] if is_call(t, 'reversed') else None
            if rv is None:
                continue
            rv = strip_list(rv)
            if isinstance(rv, tuple) and rv[:1] == ('COMP',) and len(rv) == 4:
                elt, gen = norm(rv[2]), rv[3]
                names = [n.strip() for n in gen[1].strip('()').split(',')]
                if len(names) == want[2] and gen[2] == want[1]:
                    # rename the comprehension variables to the canonical ones
                    canon = ['i', 'x'] if want[2] == 2 and 'enumerate' in repr(want[1]) else (
                        ['k', 'v'] if want[2] == 2 else ['x'])
                    sub = {('ITEM', n): ('ITEM', c) for n, c in zip(names, canon)}
                    if substitute(elt, sub) == want[0]:
                        ok = True
        if not ok:
            bad('C15-events', f'{what}: children of a {sorted(types & EXPANDABLE)} node are pushed as '
                              f'{[P.tfmt(a[0])[:160] for k, a in kids]}; expected reversed(list(records '
                              f'with parent=node, field=index/key/name, child=element, is_finished=False))')
    for need in ('seq', 'dict', 'object'):
        if need not in kinds:
            bad('C15-events', f'{what}: no branch expands {need} nodes')
    # initial record
    return stats


# ------------------------------------------------------------------ transform (C16)
def mentions(t, x):
    return any(s == x for s in P.subterms(t))


def check_transform(fns, what, bad):
    if 'transform' not in fns or '_transform' not in fns:
        raise AnalysisError(f'{what}: anchor transform/_transform vanished')
    tf, rt = fns['transform'], fns['_transform']
    stats = {'paths': 0}
    # ---- the recursive rebuild
    params = [a.arg for a in rt.args.args]
    if len(params) < 2:
        raise AnalysisError(f'{what}: _transform signature changed')
    N, CB = ('PARAM', params[0]), ('PARAM', params[1])
    E = P.Enumerator()
    paths = E.function(rt)
    if len(params) > 2:
        # extra state handed down the recursion: the recursive calls are read without it, and the
        # state itself must not decide which occurrences are transformed
        def drop_extra(t):
            if isinstance(t, tuple):
                t = tuple(drop_extra(x) for x in t)
                if t[:2] == ('CALL', ('VAR', rt.name)) and len(t) > 4:
                    return t[:4]
            return t
        paths = [P.map_path(p, drop_extra) for p in paths]
    # every occurrence is transformed: no table of nodes already seen (identity-keyed lookups)
    for p in paths:
        keyed = [x for s in p.steps for t in ([s[1]] if s[0] in ('T', 'X') else [s[3]] if s[0] == 'E' else [])
                 if isinstance(t, tuple) for x in P.subterms(t) if x == ('CALL', ('VAR', 'id'), N)]
        if keyed or (len(p.end) > 1 and isinstance(p.end[1], tuple)
                     and any(x == ('CALL', ('VAR', 'id'), N) for x in P.subterms(p.end[1]))):
            bad('C16-once', f'{what}: _transform keys a table by id(node): an object that occurs more than once is '
                            f'handed to the callbacks only at its first occurrence (later occurrences receive the '
                            f'first result), so callbacks do not run once per occurrence')
            return stats
    stats['paths'] += len(paths)
    self_call = lambda arg: ('CALL', ('VAR', rt.name), arg, CB)
    kinds = set()
    falsy = falsy_parsed_objects()
    for p in paths:
        if falsy and truthiness_decides(p, N):
            bad('C16-once', f'{what}: what _transform does with a node depends on its truthiness, and parsed objects '
                            f'can be falsy ({", ".join(falsy)}): an object that counts as empty is not handed to the '
                            f'callbacks')
        all_steps = list(p.steps)
        for s in p.steps:
            if s[0] == 'LOOP':
                for bp in s[2]:
                    all_steps += bp.steps
        # purity: nothing reachable from the input node is stored into or mutated
        for s in all_steps:
            if s[0] == 'E' and s[1] in ('attrstore', 'substore') and mentions(s[2], N) \
                    and not (isinstance(s[2], tuple) and s[2][0] == 'SUB' and s[2][1][:1] == ('OBJ',)):
                bad('C16-pure', f'{what}: _transform stores into the input tree ({P.tfmt(s[2])})')
            if s[0] == 'E' and s[1].startswith('call:') and isinstance(s[2], tuple) and s[2][:1] != ('OBJ',) \
                    and mentions(s[2], N):
                bad('C16-pure', f'{what}: _transform mutates the input tree ({P.tfmt(s[2])}.{s[1][5:]})')
            for t in ([s[1]] if s[0] == 'X' else []):
                if isinstance(t, tuple) and t[:2] == ('CALL', ('VAR', 'setattr')) and len(t) > 2 and mentions(t[2], N):
                    bad('C16-pure', f'{what}: _transform sets an attribute of the input node')
        if p.end[0] != 'return':
            bad('C16-shape', f'{what}: _transform has a path without return')
            continue
        ret = p.end[1]
        tests = p.tests()
        pos = [isinstance_types(t[1]) for t in tests if t[2] and isinstance_types(t[1])]
        neg = [isinstance_types(t[1]) for t in tests if not t[2] and isinstance_types(t[1])]
        if any(x == N and 'list' in ty for x, ty in pos):
            kinds.add('list')
            extra = sorted({t for x, ty in pos if x == N for t in ty} - {'list'})
            if extra:
                bad('C16-lists', f'{what}: values of type {extra} are rebuilt element-wise as lists: only lists are '
                                 f'containers for transform, any other value is a leaf that passes through unchanged '
                                 f'(an identity transform must return an equal tree)')
            want = ('COMP', 'ListComp', self_call(('ITEM', 'x')), ('GEN', 'x', N))
            ok = isinstance(ret, tuple) and ret[:2] == ('COMP', 'ListComp') and len(ret) == 4 \
                and ret[3][2] == N and substitute(ret[2], {('ITEM', ret[3][1]): ('ITEM', 'x')}) == want[2]
            if not ok and isinstance(ret, tuple) and ret[:1] == ('OBJ',):
                # the same list built by an explicit loop: r = []; for x in node: r.append(_transform(x, cb))
                made = [e for e in p.events('assign') if e[2] == ret[1]]
                lps = [s for s in p.steps if s[0] == 'LOOP']
                ok = len(made) == 1 and made[0][3] in (('LIST',), ('CALL', ('VAR', 'list'))) and len(lps) == 1 \
                    and isinstance(lps[0][1], ast.For) and E.val(lps[0][1].iter, {params[0]: N}) == N \
                    and len(lps[0][2]) == 1 and lps[0][2][0].end[0] == 'continue'
                if ok:
                    ev = [s for s in lps[0][2][0].steps if s[0] == 'E' and s[1] != 'assign']
                    ok = len(ev) == 1 and ev[0][1] == 'call:append' and ev[0][2] == ret \
                        and ev[0][3] == (self_call(('ITEM', N)),)
                ok = ok and not [s for s in p.steps if s[0] == 'E' and s[1] != 'assign']
            if not ok:
                bad('C16-lists', f'{what}: a list is rebuilt as {P.tfmt(ret)}, expected '
                                 f'[_transform(x, callback) for x in node]')
        elif any(x == N and 'ParsedObject' in ty for x, ty in neg):
            kinds.add('leaf')
            if ret != N:
                bad('C16-leaves', f'{what}: a non-object leaf is returned as {P.tfmt(ret)}, expected unchanged')
        elif any(x == N and 'ParsedObject' in ty for x, ty in pos):
            kinds.add('object')
            loops = [s for s in p.steps if s[0] == 'LOOP']
            early = False
            for s in p.steps:
                if s[0] == 'LOOP':
                    break
                for t in ([s[3]] if s[0] == 'E' else [s[1]] if s[0] in ('X', 'T') else []):
                    if t is not None and any(isinstance(x, tuple) and x[:2] == ('CALL', CB) for x in P.subterms(t)):
                        early = True
            if early:
                bad('C16-postorder', f'{what}: the callback is applied to a node before its children are '
                                     f'transformed (the parent must be rebuilt from transformed children first)')
                continue
            if not any(isinstance(x, tuple) and x[:2] == ('CALL', CB) for x in P.subterms(ret)):
                # a parsed object leaves the rebuild without having been handed to the callbacks
                cond = ' and '.join(('' if t[2] else 'not ') + P.tfmt(t[1]) for t in tests
                                    if not isinstance_types(t[1]))
                bad('C16-once', f'{what}: a parsed object is returned as {P.tfmt(ret)} without being passed to the '
                                f'callbacks{" when " + cond if cond else ""}: callbacks do not run on every '
                                f'object occurrence')
                continue
            if len(loops) != 1:
                raise AnalysisError(f'{what}: _transform object branch has {len(loops)} loops')
            lp = loops[0]
            if not (isinstance(lp[1], ast.For) and E.val(lp[1].iter, {params[0]: N}) == ('ATTR', N, '_fields')):
                bad('C16-fields', f'{what}: the rebuild does not iterate node._fields')
            FIELD = ('ITEM', ('ATTR', N, '_fields'))
            WAS = ('CALL', ('VAR', 'getattr'), N, FIELD)
            NOW = self_call(WAS)
            upd = None
            for bp in lp[2]:
                for e in bp.events('substore'):
                    upd = e[2][1]
                    if e[2][2] != FIELD or e[3] != NOW:
                        bad('C16-fields', f'{what}: field update is {P.tfmt(e[2])} = {P.tfmt(e[3])}, expected '
                                          f'updates[field] = _transform(getattr(node, field), callback)')
                    guard = [t for t in bp.tests() if t[1] in (('CMP', ('IsNot',), NOW, WAS), ('CMP', ('IsNot',), WAS, NOW))
                             and t[2]] + [t for t in bp.tests() if t[1] in (('CMP', ('Is',), NOW, WAS), ('CMP', ('Is',), WAS, NOW)) and not t[2]]
                    if not guard:
                        bad('C16-fields', f'{what}: a field is recorded as changed without the identity test '
                                          f'`now is not was`')
            if upd is None:
                staged = [e for bp in lp[2] for e in bp.events() if e[1].startswith('call:')
                          and any(x == NOW for x in P.subterms(e[3]))]
                if staged:
                    # the transformed children are collected first and compared later: not a shape these rules read
                    raise AnalysisError(f'{what}: _transform stages the transformed children in '
                                        f'{P.tfmt(staged[0][2])} before deciding what changed (representation not covered)')
                bad('C16-fields', f'{what}: transformed children are never recorded')
                continue
            # post-order: the callback is applied last, to the rebuilt node
            changed = [t for t in tests if t[1] == upd]
            if not changed:
                raise AnalysisError(f'{what}: no test on the update table after the field loop')
            if changed[0][2]:
                want = ('CALL', CB, ('CALL', ('ATTR', N, '_replace'), ('KW', None, upd)))
            else:
                want = ('CALL', CB, N)
            if ret != want:
                bad('C16-postorder', f'{what}: the object branch returns {P.tfmt(ret)}, expected {P.tfmt(want)} '
                                     f'(callbacks run on the node rebuilt from its transformed children)')
            # nothing is called on the node before the loop
            idx = p.steps.index(lp)
            for s in p.steps[:idx]:
                for t in ([s[3]] if s[0] == 'E' else [s[1]] if s[0] == 'X' else []):
                    if any(isinstance(x, tuple) and x[:2] == ('CALL', CB) for x in P.subterms(t)):
                        bad('C16-postorder', f'{what}: the callback is applied before the children are transformed')
    for k in ('list', 'leaf', 'object'):
        if k not in kinds:
            bad('C16-shape', f'{what}: _transform has no branch for {k} nodes')
    # ---- one pass: transform() walks the tree once, with all callbacks applied in order at each node
    self_calls = [n for n in ast.walk(tf) if isinstance(n, ast.Call) and isinstance(n.func, ast.Name)
                  and n.func.id == tf.name]
    walks = [n for n in ast.walk(tf) if isinstance(n, ast.Call) and isinstance(n.func, ast.Name)
             and n.func.id == rt.name]
    in_loop = any(isinstance(l, (ast.For, ast.While)) and any(w in list(ast.walk(l)) for w in walks)
                  for l in ast.walk(tf))
    if self_calls or len(walks) != 1 or in_loop:
        bad('C16-order', f'{what}: transform() walks the tree {"once per callback" if self_calls or in_loop else str(len(walks)) + " times"} '
                         f'instead of once with all callbacks applied in order at each node: an earlier callback '
                         f'at a parent sees children rewritten only by itself, and replacement objects are '
                         f'walked again by the later callbacks')
        return stats
    # ---- the callback chain
    inner = [n for n in tf.body if isinstance(n, ast.FunctionDef)]
    # the callback chain is the local function handed to the rebuild; other local functions are helpers
    handed = set()
    for n in ast.walk(tf):
        if isinstance(n, ast.Call) and isinstance(n.func, ast.Name) and n.func.id == rt.name:
            handed |= {a.id for a in n.args if isinstance(a, ast.Name)}
    chain = [n for n in inner if n.name in handed]
    if len(chain) != 1:
        raise AnalysisError(f'{what}: transform() does not hand one local callback chain to {rt.name}')
    cb = chain[0]
    vararg = tf.args.vararg.arg if tf.args.vararg else None
    if vararg is None:
        raise AnalysisError(f'{what}: transform() signature changed')
    E2 = P.Enumerator(helpers={n.name: n for n in inner if n is not cb})
    cps = E2.function(cb)
    stats['paths'] += len(cps)
    loops = [s for p in cps for s in p.steps if s[0] == 'LOOP']
    if not loops:
        raise AnalysisError(f'{what}: callback chain has no loop')
    lp = loops[0]
    if isinstance(lp[1], ast.While):
        # head-peeling form of the same iteration:  rest = callbacks; while rest: f, rest = rest[0], rest[1:]
        rn = lp[1].test.id if isinstance(lp[1].test, ast.Name) else None
        PH = ('PHI', rn, lp[3])
        inits = [e[3] for p in cps for e in p.events('assign') if e[2] == rn]
        peeled = rn is not None and inits and all(v == ('VAR', vararg) for v in inits) and all(
            isinstance(bp.env.get(rn), tuple) and bp.env[rn][:2] == ('SUB', PH)
            and P.tfmt(bp.env[rn][2]) == '(SLICE 1 None None)' for bp in lp[2])
        if not peeled:
            raise AnalysisError(f'{what}: the callback chain is a while loop that is not the head-peeling iteration '
                                f'over the callbacks (`{ast.unparse(lp[1].test)}`)')
        head = ('SUB', PH, ('CONST', '0'))
        body_paths = [P.map_path(bp, lambda t: substitute(t, {head: ('ITEM', ('VAR', vararg))})) for bp in lp[2]]
        fvar_names = {e[2] for bp in lp[2] for e in bp.events('assign') if e[3] == head}
        lp = (lp[0], lp[1], body_paths) + tuple(lp[3:])
    elif not (isinstance(lp[1], ast.For) and isinstance(lp[1].iter, ast.Name) and lp[1].iter.id == vararg):
        bad('C16-order', f'{what}: callbacks are not applied in the order given '
                         f'(`for f in {ast.unparse(lp[1].iter)}`)')
    for bp in lp[2]:
        muts = [e for e in bp.events() if e[1].startswith('call:') or e[1] in ('attrstore', 'substore')]
        calls = [e for e in bp.events('assign') if isinstance(e[3], tuple) and e[3][:1] == ('CALL',)
                 and e[3][1] == ('ITEM', ('VAR', vararg))]
        # applications = call expressions of the loop variable evaluated on this path (a value that is
        # merely passed on - returned by a local helper, re-assigned - is not applied again)
        fvar = lp[1].target.id if isinstance(lp[1], ast.For) and isinstance(lp[1].target, ast.Name) else None
        if isinstance(lp[1], ast.While) and len(fvar_names) == 1:
            fvar = next(iter(fvar_names))
        applied = {}
        for e in calls:
            stn = e[4] if len(e) > 4 else None
            sites = [c for c in ast.walk(stn.value) if isinstance(c, ast.Call) and isinstance(c.func, ast.Name)
                     and c.func.id == fvar] if isinstance(stn, (ast.Assign, ast.AnnAssign, ast.AugAssign)) and fvar else None
            if sites is None:
                applied[id(e)] = e
            else:
                for c in sites:
                    applied[id(c)] = e
        if len(applied) != 1:
            bad('C16-once', f'{what}: a callback is applied {len(applied)} times per node')
            continue
        NEW = calls[0][3]
        PREV = NEW[2] if len(NEW) == 3 else None
        COPY = ('CALL', ('ATTR', NEW, '_replace'))
        for e in muts:
            if e[1] == 'call:update' and e[2] == ('ATTR', NEW, '_metadata') and e[3] == (('ATTR', PREV, '_metadata'),):
                # the object a callback hands back is not the chain's to write to: it may be a node of the input
                # tree (`lambda n: n.inner`) or one object returned for many nodes - the metadata goes onto a copy
                bad('C16-pure', f'{what}: the callback chain writes the position metadata into the very object a '
                                f'callback returned ({P.tfmt(e[2])}.update): when that object is a node of the input '
                                f'tree the input is modified, when it is returned for several nodes all of them get the '
                                f'position of the first; a copy (`node._replace()`) must receive the metadata')
            elif e[1] == 'call:update' and e[2] == ('ATTR', COPY, '_metadata') and e[3] == (('ATTR', PREV, '_metadata'),):
                if bp.env.get(cb.args.args[0].arg) != COPY and COPY not in P.subterms(bp.env.get(cb.args.args[0].arg)):
                    bad('C16-metadata', f'{what}: the annotated copy of a callback result is not what the chain goes '
                                        f'on with ({P.tfmt(bp.env.get(cb.args.args[0].arg))})')
                need = {
                    'node is not prev': any((t[2] and t[1] in (('CMP', ('IsNot',), NEW, PREV), ('CMP', ('IsNot',), PREV, NEW)))
                                            or ((not t[2]) and t[1] in (('CMP', ('Is',), NEW, PREV), ('CMP', ('Is',), PREV, NEW)))
                                            for t in bp.tests()),
                    'isinstance(prev, ParsedObject)': any(t[2] and isinstance_types(t[1]) == (PREV, {'ParsedObject'}) for t in bp.tests()),
                    'isinstance(node, ParsedObject)': any(t[2] and isinstance_types(t[1]) == (NEW, {'ParsedObject'}) for t in bp.tests()),
                    'not node._metadata': any((not t[2]) and t[1] == ('ATTR', NEW, '_metadata') for t in bp.tests()),
                }
                for k, ok in need.items():
                    if not ok:
                        bad('C16-metadata', f'{what}: metadata is copied onto a callback result without the '
                                            f'guard `{k}`')
            else:
                bad('C16-pure', f'{what}: the callback chain mutates {P.tfmt(e[2])} ({e[1]}); only the '
                                f'replacement returned by a callback may receive metadata')
        if not muts:
            pass
    copies = [e for bp in lp[2] for e in bp.events() if e[1] == 'call:update']
    if not copies:
        bad('C16-metadata', f'{what}: a replacement without metadata of its own never receives the '
                            f'position metadata of the node it stands for')
    # transform() hands the tree and the chain to the rebuild
    E3 = P.Enumerator()
    for p in E3.function(tf):
        if p.end[0] == 'return' and any(t[2] for t in p.tests()):
            want = ('CALL', ('VAR', rt.name), ('PARAM', tf.args.args[0].arg), ('LOCALDEF', cb.name))
            if p.end[1] != want:
                bad('C16-shape', f'{what}: transform returns {P.tfmt(p.end[1])}')
    return stats
