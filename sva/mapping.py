def literal_rules(rep):
    pass
def bound_spellings(rep):
    pass
def repeat_mapping(rep):
    pass
