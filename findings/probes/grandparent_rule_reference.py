from sourcer import Grammar
import sys
A = Grammar('grammar probe_f12_a\nstart = X\nX = "a"\nclass K { v: X }')
B = Grammar('grammar probe_f12_b extends probe_f12_a\nY = "b"')
try:
    C = Grammar('grammar probe_f12_c extends probe_f12_b\nstart = [X, Y, K]')
    print(C.parse('aba'))
except Exception as e:
    print('ESCAPED', type(e).__name__, e); sys.exit(1)
