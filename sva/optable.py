def tag_agreement(rep):
    pass
def longest_ties(rep):
    pass
