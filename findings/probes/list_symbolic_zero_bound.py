from sourcer import Grammar
import sys
g = Grammar('start = let n = /\\d/ |> `int` in ["x"{n}, /.*/]')
bad = 0
for text, want in [('0xy', [[], 'xy']), ('1xy', [['x'], 'y']), ('2xxy', [['x', 'x'], 'y'])]:
    r = g.parse(text); ok = r == want
    print(text, r, 'ok' if ok else 'WRONG'); bad += not ok
g2 = Grammar('start = let n = /\\d/ |> `int` in ["x"{,n}, /.*/]')
for text, want in [('0xy', [[], 'xy']), ('1xxy', [['x'], 'xy'])]:
    r = g2.parse(text); ok = r == want
    print(text, r, 'ok' if ok else 'WRONG'); bad += not ok
sys.exit(1 if bad else 0)
