"""C20 - user-chosen names vs. generated code: namespace separation."""
import ast
import builtins

from ..common import Finding, AnalysisError
from . import shared
from .. import load, routes, modroute
from ..metaeval import Obj as M_Obj


def user_space_rejects(rep):
    """what the translator rejects: a leading underscore (read from translator.py)"""
    tr = load.read('sourcer/translator.py')
    if "startswith('_')" not in tr:
        raise AnalysisError('anchor: the leading-underscore check vanished from translator.py')


def keyword_capture(tree, functions, user_kw):
    """call sites in a module that pass user keyword names (explicitly or by ** spread) as Python
    keywords to a module-level function -> (caller, callee, callee's named parameters, those in
    the user identifier space)"""
    tops = {n.name: n for n in tree.body if isinstance(n, ast.FunctionDef)}
    for fname, fn in functions.items():
        for c in ast.walk(fn):
            if not (isinstance(c, ast.Call) and c.keywords and isinstance(c.func, ast.Name) and c.func.id in tops):
                continue
            if not (any(k.arg is None for k in c.keywords) or any(k.arg in user_kw for k in c.keywords)):
                continue
            callee = tops[c.func.id]
            named = [a.arg for a in callee.args.args + callee.args.kwonlyargs]
            yield fname, c.func.id, named, [a for a in named if not a.startswith('_')]


def _strings(x):
    if isinstance(x, str):
        yield x
    elif isinstance(x, (list, tuple, set)):
        for y in x:
            yield from _strings(y)
    elif isinstance(x, dict):
        for y in x.values():
            yield from _strings(y)


def temp_bases(tier):
    """(where, base, scope) of every identifier the emitted code stores that the user did not choose:
    collected from the skeletons the expression classes emit (every configuration of every class;
    what precompile emits is module scope, the rest rule-function scope) and from the rule functions
    and module bodies of the emitted route modules."""
    from sva import skeleton as SK
    import re
    out = {}
    w = SK.World()
    nsk = 0
    for K in sorted(w.classes()):
        if K in ('Call', 'Class', 'KeywordArg', 'Rule'):
            continue            # covered through the route modules below
        for cfg in SK.enumerate_configs(w, K, tier):
            try:
                b = w.build(cfg)
            except SK.Rejected:
                continue
            if b.tree is None:
                continue
            nsk += 1
            user = set(_strings(cfg.args)) | set(_strings(cfg.kwargs)) | set(_strings(cfg.post))
            try:
                pre = {x.id for x in ast.walk(ast.parse(b.pre_src)) if isinstance(x, ast.Name)
                       and isinstance(x.ctx, ast.Store)}
            except SyntaxError:
                pre = set()
            for x in ast.walk(b.tree):
                if isinstance(x, ast.Name) and isinstance(x.ctx, ast.Store) and x.id not in user:
                    scope = 'module' if x.id in pre else 'rule-function'
                    base = re.sub(r'\d+$', '', x.id)
                    out.setdefault((base, scope), f'sourcer/expressions: {K}._compile'
                                   if scope != 'module' else f'sourcer/expressions: {K}.precompile')
    R, mods = routes.emitted_modules()
    for m in mods:
        if not isinstance(m, modroute.Emitted) or getattr(m, 'route', '') == 'shipped-parser':
            continue            # the shipped parser's user names (the metagrammar's) are not known here
        user = set()
        for o in routes.walk_objs(getattr(m, 'body', []) or []):
            for k in ('name', 'names', 'params'):
                user |= set(_strings(o.d.get(k)))
        for fname, fn in m.functions.items():
            if not fname.startswith(('_try_', routes.helper_prefix())):
                continue
            params = {a.arg for a in fn.args.args + fn.args.kwonlyargs}
            for x in ast.walk(fn):
                if isinstance(x, ast.Name) and isinstance(x.ctx, ast.Store) and x.id not in user | params:
                    base = re.sub(r'\d+$', '', x.id)
                    out.setdefault((base, 'rule-function'), f'emitted module of route {m.label}: {fname}')
    return [(where, base, scope) for (base, scope), where in sorted(out.items())], nsk


def run(rep, tier):
    rep.explanation = (
        'Namespace separation, computed from the source: (i) every temporary base passed to out.var and '
        'every identifier the emitted rule code stores, per scope (rule-function locals, where let '
        'variables, class fields and parameters live; module globals, where rules and classes live); '
        '(ii) every global or builtin that emitted rule functions, entry points, error functions and '
        'the runtime read by bare name (from the emitted route modules, symbol tables); (iii) names '
        'intercepted before user templates. A generated identifier that shares a scope with user '
        'names, and every bare-name read, must lie outside the user identifier space (leading '
        'underscore). Every instance found today is a genuine collision and is listed in '
        'known_findings.json; a new temporary, builtin use or intercepted name is a fresh violation.')
    rep.not_decided += ['equality of results under renaming on inputs']
    for rid, txt in [
        ('NAME-temporary', 'temporaries sharing a scope with user names start with an underscore'),
        ('NAME-bare-read', 'emitted code and runtime read no global/builtin by a bare name a user may define'),
        ('NAME-class-body', 'generated class bodies reserve no user-space names'),
        ('NAME-derived-namespace', 'module-level names the generator invents cannot be derived from a user identifier '
                                   '(`_try_<name>`, `_parse_<name>`)'),
        ('NAME-keyword-prefix', 'the metagrammar matches keywords as whole words, never as bare literals that are '
                                'prefixes of user identifiers'),
        ('NAME-keyword-capture', 'user keyword names are never passed as Python keywords to a function with '
                                 'user-space parameter names of its own'),
        ('INTERCEPT-table', 'no user-space name is intercepted before user templates'),
    ]:
        rep.rule(rid, txt)
    user_space_rejects(rep)
    seen = set()
    temps, nsk = temp_bases(tier)
    rep.count('skeletons scanned for stored identifiers', nsk)
    rep.floor('skeletons scanned for stored identifiers', nsk, 1000)
    for where, base, scope in temps:
        rep.count('temporary allocation sites examined')
        if base.startswith('_'):
            rep.oblige(True)
            continue
        if (base, scope) in seen:
            continue
        seen.add((base, scope))
        rep.oblige(False)
        what = ('a rule, class' if scope == 'module' else 'a let variable, class field or parameter')
        rep.add(Finding('NAME-temporary', scope, base,
                        f'the generator allocates temporaries `{base}<n>` in the {scope} scope ({where}); '
                        f'{what} named e.g. `{base}1` is overwritten by / overwrites it', where))
    rep.floor('temporary allocation sites examined', rep.instances.get('temporary allocation sites examined', 0), 30)
    # (ii) bare-name reads in emitted modules
    R, mods = routes.emitted_modules()
    api = {'parse', 'Infix', 'Prefix', 'Postfix', 'ParseError', 'PartialParseError', 'InputError', 'ParsedObject',
           'ParsingRule', 'visit', 'traverse', 'transform'}
    reads = {}
    import symtable
    for m in mods:
        if not isinstance(m, modroute.Emitted) or getattr(m, 'route', '') == 'shipped-parser':
            continue            # the shipped parser's user names (the metagrammar's) are not known here
        st = symtable.symtable(m.src, '<emitted>', 'exec')
        user_defined = set()
        for o in routes.walk_objs(getattr(m, 'body', []) or []):
            nm = o.d.get('name')
            if isinstance(nm, str) and o.cls.name in ('Rule', 'Class'):
                user_defined.add(nm)
        # free names of the route grammar's own inline Python are the grammar author's reads
        user_defined |= {n for n in routes.user_python_names(m) if n.startswith('zz_')}
        for n in m.tree.body:
            # names a sub-grammar imports from its parent are the parent's user names / runtime
            if isinstance(n, ast.ImportFrom):
                user_defined |= {a.asname or a.name for a in n.names}
            # module-level temporaries (regex matchers) are reported under NAME-temporary
            if isinstance(n, ast.Assign) and isinstance(n.value, ast.Attribute) and n.value.attr == 'match':
                user_defined |= {t.id for t in n.targets if isinstance(t, ast.Name)}

        def walk(t):
            yield t
            for c in t.get_children():
                yield from walk(c)
        user_classes = {o.d.get('name') for o in routes.walk_objs(getattr(m, 'body', []) or [])
                        if o.cls.name == 'Class'}

        def walk_with_parent(t, parent=None):
            yield t, parent
            for c in t.get_children():
                yield from walk_with_parent(c, t)
        for t, parent in walk_with_parent(st):
            if t.get_type() != 'function':
                continue
            # the constructor of a generated class takes the user's field names as parameters: a bare
            # read in that scope is shadowed by a *field* of that name (a different collision than a
            # rule or class rebinding the module global)
            in_ctor = parent is not None and parent.get_type() == 'class' and parent.get_name() in user_classes \
                and t.get_name() == '__init__'
            for s in t.get_symbols():
                name = s.get_name()
                if s.is_global() and s.is_referenced() and not name.startswith('_') and name not in api \
                        and name not in user_defined:
                    kind = 'builtin' if hasattr(builtins, name) else 'global'
                    if in_ctor:
                        kind += '-in-constructor'
                    reads.setdefault((kind, name), f'{parent.get_name()}.{t.get_name()}' if in_ctor else t.get_name())
        rep.count('emitted modules scanned for bare-name reads')
    for (kind, name), where in sorted(reads.items()):
        rep.oblige(False)
        rep.add(Finding('NAME-bare-read', kind, name,
                        f'generated code reads the {kind} `{name}` by bare name (e.g. in {where}): '
                        + (f'the constructor takes the class\'s field names as parameters, so a field named '
                           f'`{name}` shadows it there' if kind.endswith('-in-constructor') else
                           f'a user rule or class named `{name}` rebinds it for the whole module, a field / let '
                           f'variable / parameter named `{name}` shadows it inside its rule function'),
                        'sourcer/translator.py templates + sourcer/expressions emission'))
    # (ii-b) user keyword names (keyword arguments of template calls) handed to a callee as Python
    # keywords: the callee's own parameter names must lie outside the user identifier space
    nkw = 0
    for m in mods:
        if not isinstance(m, modroute.Emitted) or getattr(m, 'route', '') == 'shipped-parser':
            continue            # the shipped parser's user names (the metagrammar's) are not known here
        user_kw = {o.d.get('name') for o in routes.walk_objs(getattr(m, 'body', []) or [])
                   if o.cls.name == 'KeywordArg'}
        for fname, callee, named, clash in keyword_capture(m.tree, m.functions, user_kw):
            nkw += 1
            rep.oblige(not clash)
            if clash:
                rep.add(Finding('NAME-keyword-capture', callee, ','.join(clash),
                                f'{fname} hands user keyword names to {callee}({", ".join(named)}...) as Python '
                                f'keywords: a template parameter named `{clash[0]}` collides with the callee\'s own '
                                f'parameter (TypeError: multiple values for argument)',
                                f'emitted module of route {m.label}: {fname}'))
    # positive control: a synthetic module that binds arguments through a helper with a user-space name
    ctl = ast.parse('def _bind(func, *args, **kwargs):\n    return (func, args, kwargs)\n'
                    'def _try_T(_text, _pos):\n    f = _bind(_try_T, 1, p=2)\n    yield f\n')
    hits = [c for c in keyword_capture(ctl, load.functions_of(ctl), {'p'}) if c[3]]
    rep.count('positive controls evaluated')
    if not hits:
        rep.error('positive control silent: NAME-keyword-capture did not flag _bind(func, *args, **kwargs)')
    rep.count('call sites that spread user keyword names into a module function', nkw)
    # the one sanctioned spread: _ParseFunction.__call__ -> rule function, whose own parameters are
    # the underscore-prefixed convention prefix (checked by CONV-prefix / ADAPTOR under C06)
    # (ii-d) module-level names derived from user names (`_try_<rule>`, `_parse_<rule>`) versus
    # module-level names the generator invents (helpers, error functions): an invented name must not
    # be derivable from a user identifier, or a rule of that name redefines it
    import re as _re
    derived_hits = {}
    nmod_names = 0
    for m in mods:
        if not isinstance(m, modroute.Emitted) or getattr(m, 'route', '') == 'shipped-parser' or not getattr(m, 'body', None):
            continue
        users = set()
        for o in m.body:
            if isinstance(o, M_Obj) and o.cls.name in ('Rule', 'Class') and isinstance(o.d.get('name'), str) \
                    and not o.d['name'].startswith('_'):
                users.add(o.d['name'])
        top = set()
        for n in m.tree.body:
            if isinstance(n, (ast.FunctionDef, ast.ClassDef)):
                top.add(n.name)
            elif isinstance(n, ast.Assign):
                top |= {t.id for t in n.targets if isinstance(t, ast.Name)}
        prefixes = set()
        for u in users:
            for g in top:
                if g.endswith(u) and g != u and not g[:-len(u)].isidentifier() is False:
                    prefixes.add(g[:-len(u)])
        prefixes = {p for p in prefixes if p.startswith('_') and p.endswith('_')}
        derived = {p + u for p in prefixes for u in users} | users
        try:
            runtime = set(routes.runtime_defs(m.uses_context))
        except Exception:
            runtime = set()
        for g in sorted(top - derived - runtime):
            nmod_names += 1
            for p in prefixes:
                rest = g[len(p):]
                if g.startswith(p) and rest.isidentifier() and not rest.startswith('_'):
                    derived_hits.setdefault(p + _re.sub(r'\d+$', '', rest), (g, p, rest, m.label))
    rep.count('invented module-level names checked against the derived namespaces', nmod_names)
    for keyname, (g, p, rest, label) in sorted(derived_hits.items()):
        rep.oblige(False)
        rep.add(Finding('NAME-derived-namespace', 'module', keyname,
                        f'the generator invents the module-level name `{g}` (route {label}); a user rule named '
                        f'`{rest}` is given the derived name `{p}{rest}` - the same name: one definition replaces '
                        f'the other',
                        'sourcer/expressions/base.py:Expression.functionalize / sourcer/expressions/rule.py'))
    # (ii-c) the metagrammar itself: a keyword matched as a bare literal (no word boundary) splits a
    # user identifier that merely starts with it (`letter` -> `let ter`, `Nonempty` -> `None` `empty`)
    nlit = 0
    for m in mods:
        if not isinstance(m, modroute.Emitted) or getattr(m, 'route', '') != 'shipped-parser':
            continue
        for fname, fn in m.functions.items():
            if not fname.startswith('_try_'):
                continue
            consts = {}
            for n in ast.walk(fn):
                if isinstance(n, ast.Assign) and len(n.targets) == 1 and isinstance(n.targets[0], ast.Name) \
                        and isinstance(n.value, ast.Constant) and isinstance(n.value.value, str):
                    consts[n.targets[0].id] = n.value.value
            for n in ast.walk(fn):
                if not (isinstance(n, ast.Compare) and len(n.ops) == 1 and isinstance(n.ops[0], ast.Eq)):
                    continue
                sides = [n.left, n.comparators[0]]
                if not any(isinstance(x, ast.Subscript) and isinstance(x.value, ast.Name) and x.value.id == '_text'
                           for x in sides):
                    continue
                for x in sides:
                    lit = x.value if isinstance(x, ast.Constant) else consts.get(x.id) if isinstance(x, ast.Name) else None
                    if isinstance(lit, str):
                        nlit += 1
                        rep.oblige(not lit.isidentifier())
                        if lit.isidentifier():
                            rep.add(Finding('NAME-keyword-prefix', 'grammar.txt (sourcer/parser.py)', lit,
                                            f'the metagrammar matches the keyword `{lit}` as a bare literal in '
                                            f'{fname[5:]}: a user identifier that starts with it is split '
                                            f'(`{lit}ter` is read as `{lit}` followed by `ter`); keywords must be '
                                            f'matched as whole words (kw("{lit}"))',
                                            f'sourcer/parser.py:{fname}'))
    rep.count('string literals matched by the shipped metagrammar parser', nlit)
    rep.floor('string literals matched by the shipped metagrammar parser', nlit, 15)
    # (iii) class bodies: the generated __init__(self, <fields>) and the class attributes
    reserved = set()
    for m in mods:
        if isinstance(m, modroute.Emitted) and getattr(m, 'route', '') == 'classes':
            for cname, cls in m.classes.items():
                if cname in ('K', 'P', 'E'):
                    for st in cls.body:
                        if isinstance(st, ast.FunctionDef) and st.name == '__init__' and st.args.args:
                            reserved.add(st.args.args[0].arg)
    rep.count('generated class bodies examined for reserved names', len(reserved))
    for nm in sorted(reserved):
        if not nm.startswith('_'):
            rep.add(Finding('NAME-class-body', 'class', nm,
                            f'the generated constructor names its receiver `{nm}`: a class field named `{nm}` produces '
                            f'`def __init__({nm}, {nm})` (SyntaxError: duplicate argument)',
                            'sourcer/expressions/class_.py:Class._compile_class_body'))
    shared.entry_closure_rule(rep, mods)
    # a renaming changes nothing but the name: the generator never classifies a user name by what Python happens to
    # define (builtins, keywords) - it may reject names by a documented lexical rule, not treat some of them differently
    rep.rule('NAME-special-case', 'the generator does not consult builtins / keyword tables to decide how a user name is '
                                  'compiled')
    n_gen = 0
    for rel in ['sourcer/translator.py', 'sourcer/grammar.py'] + load.expression_files():
        tree = load.parse(rel)
        n_gen += 1
        for n in ast.walk(tree):
            mods_ = []
            if isinstance(n, ast.Import):
                mods_ = [a.name.split('.')[0] for a in n.names]
            elif isinstance(n, ast.ImportFrom) and n.module:
                mods_ = [n.module.split('.')[0]]
            elif isinstance(n, ast.Name) and n.id == '__builtins__':
                mods_ = ['builtins']
            for mname in mods_:
                if mname in ('builtins', 'keyword'):
                    rep.oblige(False)
                    rep.add(Finding('NAME-special-case', rel, mname,
                                    f'{rel} consults `{mname}` (line {n.lineno}): user names that happen to be Python '
                                    f'{"builtins" if mname == "builtins" else "keywords"} are compiled differently from '
                                    f'other names, so renaming a rule, field or variable changes more than the name', rel))
    rep.count('generator sources examined for name special-casing', n_gen)
    # (iv) the attribute namespace: fields of a user class are instance attributes (constant members class
    # attributes) of a ParsedObject subclass, so every name ParsedObject itself defines must lie outside the user
    # identifier space (leading underscore) - a public helper is shadowed by a field of that name
    rep.rule('NAME-attribute', 'ParsedObject defines no public attribute or method: a class field of the same name would '
                               'shadow it on the instances the runtime itself works with')
    n_attr = 0
    for what, tree, rel in routes.runtime_subjects():
        po = load.classes_of(tree).get('ParsedObject')
        if po is None:
            raise AnalysisError(f'{what}: anchor class ParsedObject vanished')
        for st in po.body:
            names = [st.name] if isinstance(st, (ast.FunctionDef, ast.ClassDef)) else \
                [t.id for t in getattr(st, 'targets', []) if isinstance(t, ast.Name)] if isinstance(st, ast.Assign) else \
                [st.target.id] if isinstance(st, ast.AnnAssign) and isinstance(st.target, ast.Name) else []
            for nm in names:
                n_attr += 1
                rep.oblige(nm.startswith('_'))
                if not nm.startswith('_'):
                    rep.add(Finding('NAME-attribute', 'ParsedObject', nm,
                                    f'{what}: ParsedObject.{nm} is a public name: a class field (or constant member) named '
                                    f'`{nm}` shadows it, and the runtime calling `node.{nm}` gets the user\'s value',
                                    f'{rel} ({what})'))
    # the same for what the generator itself puts into the body of a user class next to the user's members
    gen_public = {}
    for m in mods:
        if not isinstance(m, modroute.Emitted) or getattr(m, 'route', '') == 'shipped-parser' or not getattr(m, 'body', None):
            continue
        for o in m.body:
            if not (isinstance(o, M_Obj) and o.cls.name == 'Class'):
                continue
            cdef = m.classes.get(o.d.get('name'))
            if cdef is None:
                continue
            members = {mm.d.get('name') for mm in (o.d.get('members') or []) if isinstance(mm, M_Obj)}
            for st in cdef.body:
                names = [st.name] if isinstance(st, (ast.FunctionDef, ast.ClassDef)) else \
                    [t.id for t in getattr(st, 'targets', []) if isinstance(t, ast.Name)] if isinstance(st, ast.Assign) else []
                for nm in names:
                    n_attr += 1
                    if not nm.startswith('_') and nm not in members:
                        gen_public.setdefault(nm, f'{m.label}: class {cdef.name}')
    for nm, where in sorted(gen_public.items()):
        rep.oblige(False)
        rep.add(Finding('NAME-attribute', 'generated-class', nm,
                        f'the generator defines `{nm}` in the body of every user class ({where}): a constant member '
                        f'`let {nm}: ...` of the class is overwritten by it (reading obj.{nm} gives the generated '
                        f'function, not the member)', 'sourcer/expressions/class_.py:Class._compile_class_body'))
    rep.count('ParsedObject attributes examined', n_attr)
    rep.floor('ParsedObject attributes examined', n_attr, 10)
    from . import C06
    C06.interception_table(rep)
    documented = ['Apply', 'Backtrack', 'Byte', 'Choice', 'Discard', 'Expect', 'ExpectNot', 'Fail', 'Left', 'Let',
                  'List', 'Longest', 'Opt', 'Regex', 'Right', 'Sep', 'Seq', 'Skip', 'Some', 'Str', 'Where']
    tree = load.parse('sourcer/expressions/__init__.py')
    exported = {a.asname or a.name for n in tree.body if isinstance(n, ast.ImportFrom) for a in n.names}
    for nm in documented:
        if nm in exported:
            rep.add(Finding('INTERCEPT-table', 'constructor', nm,
                            f'a user rule or class named `{nm}` can never be instantiated as a template: `{nm}(...)` '
                            f'always builds the built-in expression', 'sourcer/translator.py:_create_parsing_expression'))
    from .. import controls
    controls.route_controls(rep)
