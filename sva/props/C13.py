"""C13 - inheritance: late binding, lexical super, context wiring, parent read-only, module install."""
import ast

from ..common import Finding, AnalysisError
from .. import load, routes, e1run
from .. import paths as P


def install_module_rule(rep):
    tree = load.parse('sourcer/grammar.py')
    fns = load.functions_of(tree)
    if '_install_module' not in fns:
        raise AnalysisError('anchor grammar._install_module vanished')
    fn = fns['_install_module']
    name, module = [a.arg for a in fn.args.args][:2]
    ps = P.Enumerator().function(fn)
    rep.count('paths through _install_module', len(ps))
    for p in ps:
        if p.end[0] == 'raise':
            continue
        want_t, want_v = ('SUB', ('ATTR', ('VAR', 'sys'), 'modules'), ('PARAM', name)), ('PARAM', module)
        stores = [e for e in p.events('substore') if e[2] == want_t and e[3] == want_v]
        if not stores:
            # iterative form: an always-entered loop whose every iteration begins by registering the
            # current (name, module); in the first iteration these are the arguments
            from .. import walkers
            assigned_before = set()
            for s in p.steps:
                if s[0] == 'E' and s[1] == 'assign':
                    assigned_before.add(s[2])
                if s[0] == 'LOOP' and isinstance(s[1], ast.While) and isinstance(s[1].test, ast.Constant) \
                        and s[1].test.value is True and not ({name, module} & assigned_before):
                    first = {('PHI', name, s[3]): ('PARAM', name), ('PHI', module, s[3]): ('PARAM', module)}
                    if s[2] and all(any(e[0] == 'E' and e[1] == 'substore'
                                        and walkers.substitute(e[2], first) == want_t
                                        and walkers.substitute(e[3], first) == want_v for e in bp.steps)
                                    for bp in s[2]):
                        stores = [s]
                    break
        dotted = any((t[2] is False and t[1] == ('CMP', ('NotIn',), ('CONST', "'.'"), ('PARAM', name))) or
                     (t[2] is True and t[1] == ('CMP', ('In',), ('CONST', "'.'"), ('PARAM', name))) for t in p.tests())
        rep.oblige(bool(stores))
        if not stores:
            rep.add(Finding('INSTALL-sys-modules', 'sourcer/grammar.py:_install_module', 'dotted' if dotted else 'plain',
                            f'a path through _install_module never assigns sys.modules[name] = module '
                            f'({p.describe()[:200]}): `extends {"pkg.name" if dotted else "name"}` cannot import it',
                            'sourcer/grammar.py:_install_module'))
        if dotted:
            sets = [s for s in p.steps if s[0] == 'X' and isinstance(s[1], tuple)
                    and s[1][:2] == ('CALL', ('VAR', 'setattr')) and s[1][-1] == ('PARAM', module)]
            rep.oblige(bool(sets))
            if not sets:
                rep.add(Finding('INSTALL-package-attr', 'sourcer/grammar.py:_install_module', 'dotted',
                                'for a dotted name the module is not made an attribute of its package on '
                                f'the path {p.describe()[:200]}', 'sourcer/grammar.py:_install_module'))
    # Grammar() installs exactly when the description is named
    g = fns.get('Grammar')
    if g is None:
        raise AnalysisError('anchor grammar.Grammar vanished')
    calls = [n for n in ast.walk(g) if isinstance(n, ast.Call) and ast.unparse(n.func) == '_install_module']
    if len(calls) != 1:
        rep.add(Finding('INSTALL-sys-modules', 'sourcer/grammar.py:Grammar', '', f'Grammar() installs the module '
                        f'{len(calls)} times', 'sourcer/grammar.py:Grammar'))


def run(rep, tier):
    rep.explanation = (
        'Route grammars with a base, a sub-grammar (overriding a rule, using super, adding rules and '
        'optionally ignore patterns of its own) and a third level are emitted by partial evaluation of '
        'the translator; rules on the emitted modules: non-local references go through _ctx (late '
        'binding, also for rules passed as arguments) while super.R is rooted at the module-global '
        '_super_ctx (lexical); every attribute read through _ctx by this module or by any inherited '
        'function is assigned on this module\'s context; every _super_ctx attribute read exists on '
        'the parent context; nothing stores through _super_ctx; free names of the sub-grammar are '
        'covered by its import prologue; references resolve against every ancestor. '
        '_install_module: every path assigns sys.modules[name] and, for dotted names, the package '
        'attribute.')
    rep.not_decided += ['behaviour of A before/after creating B on inputs (follows structurally from '
                        'parent-read-only and C18)']
    for rid, txt in [
        ('SUPER-lexical', 'super.R is emitted rooted at _super_ctx, never at _ctx._super_ctx'),
        ('WIRE-ctx', 'every _ctx attribute a module reads is assigned on its context'),
        ('WIRE-inherited', 'every _ctx attribute an inherited function reads is assigned on the sub-grammar context'),
        ('WIRE-super', 'every _super_ctx attribute read is assigned on the parent context'),
        ('WIRE-parent-readonly', 'no store through _super_ctx'),
        ('FREE-name', 'free names of emitted modules are defined / imported'),
        ('LATE-bound', 'non-local rule references are emitted through _ctx in the context convention'),
        ('INSTALL-sys-modules', 'every path of _install_module registers the module'),
        ('ROUTE-raises', 'the translator compiles every inheritance route without raising'),
        ('START-inherited', 'a sub-grammar without a start of its own starts the nearest inherited start (rule or class) through _ctx'),
        ('SUBIMPORT-complete', 'the sub-grammar prologue imports every runtime name emitted code can mention'),
        ('WIRE-import-shadow', 'a sub-grammar does not re-import from an ancestor a name it defines itself'),
        ('WIRE-ctx-param', 'every rule function and helper of a named grammar receives the context as a parameter '
                           '(inherited code must run with the context of the grammar being parsed)'),
        ('IGN-start-prefix', 'a start rule the sub-grammar defines itself begins by skipping ignorable text when '
                             'only an ancestor declares ignore patterns'),
        ('IGN-every-literal', 'literals of a sub-grammar skip ignorable text when only an ancestor declares it'),
        ('WIRE-global-store', 'rule functions keep nothing computed from their context in module-level names'),
        ('IGN-rule', 'the synthetic ignore rule reaches every named ignored rule by a (late-bound) reference, so a '
                     'sub-grammar that overrides an ignored rule changes what inherited rules skip'),
    ]:
        rep.rule(rid, txt)
    found, stats, nmods = routes.run(rep, 'C13', ['SUPER-', 'WIRE-', 'FREE-name', 'CONV-', 'SUBIMPORT-', 'START-inherited',
                                                   'IGN-start-prefix', 'IGN-every-literal', 'IGN-rule'],
                                     label_filter=lambda msg: msg.startswith('sub-'), always=('WIRE-ctx-param', 'WIRE-global-store'))
    # (the prefix 'WIRE-' selects WIRE-import-shadow as well)
    rep.floor('route modules emitted', nmods, 26)
    rep.floor('context attribute reads examined', stats['ctx_reads'], 60)
    install_module_rule(rep)
    # late binding at the leaf: Ref skeleton callee
    late_binding(rep)
    ancestors_read_fresh(rep)
    from .. import controls
    controls.route_controls(rep)


def late_binding(rep):
    from .. import skeleton as SK, e1
    w = SK.World()
    n = 0
    for cfg in SK.enumerate_configs(w, 'Ref', 'quick'):
        b = w.build(cfg)
        an = e1.Analysis(b)
        msgs = []
        e1.spec_ref(b, an, lambda r, m: msgs.append((r, m)))
        n += 1
        got, want = getattr(b, 'ref_callee', None), getattr(b, 'ref_want', None)
        ok = got == want
        rep.oblige(ok)
        if not ok:
            rep.add(Finding('LATE-bound', 'Ref', cfg.key,
                            f'Ref emits the callee {e1.fmt(got)}, expected {e1.fmt(want)} (non-local references go '
                            f'through _ctx so that inherited code calls overrides; local names and super stay as '
                            f'they are)', 'sourcer/expressions/ref.py:Ref._compile', {'skeleton': b.src}))
        # argumentize: a rule passed as an argument is late-bound too
        out = w.OS.CodeBuilder()
        from .. import metaeval as M
        val = w.call(b.obj, 'argumentize', out, M.Flags(cfg.ctx))
        txt = str(val)
        name = cfg.post.get('_resolved') or cfg.args[0]
        exp = name
        if cfg.ctx and not cfg.post.get('is_local') and not name.startswith('_super_ctx.'):
            exp = '_ctx.' + name
        rep.oblige(txt == exp)
        if txt != exp:
            rep.add(Finding('LATE-bound', 'Ref.argumentize', cfg.key,
                            f'a reference passed as a template argument is emitted as `{txt}`, expected `{exp}`',
                            'sourcer/expressions/ref.py:Ref.argumentize'))
    rep.count('Ref configurations (callee form)', n)
    rep.floor('Ref configurations (callee form)', n, 12)


def ancestors_read_fresh(rep):
    """What a sub-grammar inherits (rule names, start, ignore patterns) is decided at translation time from the
    ancestor's description; the emitted module binds to the ancestor module that is installed *now*. Both views agree
    only if grammar.py reads the ancestor afresh on every Grammar() call: no function of grammar.py may keep anything
    in an object that outlives the call (lexical store rule of C18, same single exception: sys.modules)."""
    from .. import sharedstate, load
    from . import C18
    rep.rule('INHERIT-no-cache', 'grammar.py keeps nothing between Grammar() calls: the parsed description of an ancestor '
                                 'is derived from the module installed under its name at the time of the call '
                                 '(a cache keyed by name would compile a sub-grammar against a stale ancestor)')
    rel = 'sourcer/grammar.py'
    found, n = sharedstate.scan(load.parse(rel), rel, allow=set(C18.ALLOW))
    rep.count('grammar.py functions scanned for stores that outlive the call', n)
    rep.floor('grammar.py functions scanned for stores that outlive the call', n, 4)
    rep.oblige(not found, max(n, 1))
    for rule, qual, msg in found:
        rep.add(Finding('INHERIT-no-cache', f'{rel}:{qual}', '', msg, f'{rel}:{qual}'))
