def e1_controls(rep):
    pass
