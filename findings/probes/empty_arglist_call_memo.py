from sourcer import Grammar
import sys
count = []
g = Grammar('''
```
count = []
def tick(x):
    count.append(x)
    return x
```
A = "a" |> `tick`
start = [A, "x"] | [A(), "z"]
''')
print(g.parse('az'), g.count)
sys.exit(0 if len(g.count) == 1 else 1)
