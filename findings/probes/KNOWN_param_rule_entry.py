from sourcer import Grammar
g = Grammar('T(p) = p << "!"\nstart = T("a")')
print(g.parse('a!'))
print(g.T.parse('a!'))   # TypeError: _try_T() missing 1 required positional argument: 'p'
