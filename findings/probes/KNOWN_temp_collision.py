from sourcer import Grammar
g = Grammar('class A { value2: /\\d/; other: "b"; tail: "c" }\nstart = A')
r = g.parse('1bc'); print(r)     # A(value2='c', ...): the field is overwritten by the temporary of a later literal
assert r.value2 == '1', r
