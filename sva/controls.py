def e1_controls(rep):
    pass
def trampoline_controls(rep):
    pass
