from sourcer import Grammar
# dangling infix with a literal operand (CP False): '1+' must leave '+' unconsumed
g = Grammar('start = "1" between { left: "+" }')
try:
    print(repr(g.parse('1+', fullparse=False)))
    g.parse('1+')
except Exception as e:
    print(type(e).__name__, getattr(e,'last_position',None))
# prefix consumed then operand fails: alternative must start at 0
g2 = Grammar('start = ("1" between { prefix: "-" }) | "-x"')
try: print(repr(g2.parse('-x')))
except Exception as e: print(type(e).__name__, str(e)[:60])
