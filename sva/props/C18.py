"""C18 - isolation of parse calls: who may write shared state (lexical scope resolution)."""
import ast

from ..common import Finding, AnalysisError
from .. import load, sharedstate, trampoline

ALLOW = {
    # one named symbol each, with the reason
    ('_install_module', 'sys'): 'Grammar() publishes a named module in sys.modules: the documented effect',
}


def subjects():
    from .. import routes, modroute
    out = list(routes.runtime_subjects())
    R, mods = routes.emitted_modules()
    for m in mods:
        # whole emitted modules: rule functions, entry points, error functions, wiring
        if isinstance(m, modroute.Emitted) and (m.sub or getattr(m, 'route', '') in ('templates', 'classes',
                                                                                         'deep-nesting')):
            out.append((f'emitted module of route {m.label}', m.tree, 'sourcer/translator.py'))
    for rel in ['sourcer/grammar.py', 'sourcer/translator.py'] + load.expression_files():
        out.append((rel, load.parse(rel), rel))
    return out


def run(rep, tier):
    rep.explanation = (
        'For every function, method and nested function of the runtime templates (both conventions, '
        'sub-grammar prologue), the shipped parser, grammar.py, translator.py and expressions/*.py the '
        'root of every attribute/subscript store, mutating method call, setattr and global assignment '
        'is resolved lexically; anything not local to the call (module-level object, class object, '
        '_ctx/_super_ctx, imported module) is a violation, with one named exception '
        '(sys.modules in _install_module). Mutable default arguments and caching decorators are '
        'violations. The memo/stack of the driver are locals created per call (C07 rule reused); '
        'emitted rule code stores only through locals (E1 rule G5). Given that nothing outlives a call '
        'but immutable objects, re-entrant, interleaved and repeated calls cannot influence each other.')
    rep.not_decided += ['thread scheduling itself (nothing to decide once nothing is shared)',
                        'ParsedObject hash caching is per object (noted)']
    rep.rule('C18-no-shared-store', 'no store / mutation inside a function has a non-local root')
    rep.rule('C18-no-cache', 'no mutable default argument, no caching decorator')
    rep.rule('C18-ctx-fresh', 'the context object is created fresh per module and only populated at module level')
    total = 0
    for what, tree, rel in subjects():
        found, n = sharedstate.scan(tree, what, allow=set(ALLOW))
        total += n
        rep.count('functions scanned', n)
        rep.count('modules scanned')
        rep.oblige(not found, max(n, 1))
        for rule, qual, msg in found:
            rep.add(Finding(rule, f'{rel}:{qual}', '', msg, f'{rel}:{qual}'))
    rep.floor('functions scanned', total, 250)
    rep.floor('modules scanned', rep.instances.get('modules scanned', 0), 30)
    rep.sample({'allowed exception': [f'{k}: {v}' for k, v in ALLOW.items()]})
    # the driver's memo and stack are per-call locals
    call_const = load.call_constant()
    from .. import routes
    for what, tree, rel in routes.runtime_subjects():
        if rel != 'sourcer/translator.py':
            continue
        name, fn, call = trampoline.find_trampoline(tree, what)
        ctx = bool(fn.args.args and fn.args.args[0].arg == '_ctx')
        roles, bad, stats = trampoline.analyse(fn, call_const, ctx, what)
        for rule, msg in bad:
            if rule == 'C07-memo-local':
                rep.add(Finding('C18-no-shared-store', f'sourcer/translator.py:{name}', f'ctx={ctx}', msg,
                                f'sourcer/translator.py:{name}'))
        for obj, label in ((roles.S, 'stack'), (roles.M, 'memo')):
            if not (isinstance(obj, tuple) and obj[0] == 'OBJ'):
                rep.add(Finding('C18-no-shared-store', f'sourcer/translator.py:{name}', f'ctx={ctx}',
                                f'{what}: the {label} of the driver is not a local object', f'sourcer/translator.py:{name}'))
        rep.oblige(True, 2)
    rep.rule('PY-in-place', 'inline Python of the grammar (arguments, predicates, applied functions, let values, '
                            'bounds) is evaluated inside the rule function at every visit, never hoisted to '
                            'module level where its value would be shared by all parse calls')
    found, stats, nmods = routes.run(rep, 'C18', ['WIRE-parent-readonly', 'PY-in-place'])
    rep.floor('route facts: inline_python_sites', stats.get('inline_python_sites', 0), 20)
    # nested parses started from inline Python: their (already finalised) objects may be embedded in the
    # outer result
    from .. import finalize
    rep.rule('SPAN-convert-once', 'only raw spans are converted: results of nested parses can be embedded')
    for what, tree, rel in routes.runtime_subjects():
        fnd = []
        finalize.finalize_rules(load.functions_of(tree), what, lambda r, m: fnd.append((r, m)))
        for r, m in fnd:
            if r == 'SPAN-convert-once':
                rep.add(Finding(r, f'{rel}:runtime', '', m, f'{rel} ({what})'))
    # wiring of the context: `_ctx = _Context()` at module level in translator's emission
    tr = load.read('sourcer/translator.py')
    if "_ctx = _Context()" not in tr:
        raise AnalysisError('anchor: emission of `_ctx = _Context()` not found in translator.py')
    from .. import e1run
    e1run.run(rep, ['Seq', 'Let', 'Ref', 'Str', 'Regex', 'Byte', 'List', 'Sep', 'OperatorTable', 'Choice',
                    'Longest', 'Skip', 'Opt', 'Where', 'Apply', 'Discard', 'Expect', 'ExpectNot'],
              'quick', select=lambda f: f['rule'] == 'G5-local-stores')
    from .. import controls
    controls.sharedstate_controls(rep)
