from sourcer import Grammar
g = Grammar('T(p) = p << "!"\nclass A { n: /\\d/; m: T(["x", n]) }\nstart = A')
print(g.parse('1x1!'))     # NameError / wrong: field n is not captured by the argument closure
