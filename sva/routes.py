def class_tables(rep, only_rules=None):
    pass
