from sourcer import Grammar
def t(desc, text):
    try:
        g = Grammar(desc)
        print(repr(desc), '->', repr(g.parse(text)))
    except Exception as e:
        print(repr(desc), 'EXC', type(e).__name__, str(e)[:200])
t('start = let n = /\\d/ |> `int` in "a"{n}', '2aa')
t('start = let n = /\\d/ |> `int` in List("a", min_len=n, max_len=n)', '2aa')
t('start = let n = /\\d/ |> `int` in List("a", min_len=`n`, max_len=`n`)', '2aa')
t('start = "a"{1,}', 'b')
t('start = List("a", min_len=1)', 'b')
