"""C16 - transform: post-order rebuild, purity, metadata copy (path rules)."""
import ast

from ..common import Finding, AnalysisError
from .. import load, walkers
from . import C15

RULES = [
    ('C16-postorder', 'callbacks are applied last, to the node rebuilt from its transformed children'),
    ('C16-fields', 'every field of node._fields is transformed; a change is recorded only under `now is not was`'),
    ('C16-lists', 'lists are rebuilt element-wise'), ('C16-leaves', 'other leaves are returned unchanged'),
    ('C16-pure', 'no store / mutation has the input node (or anything reached from it) as receiver'),
    ('C16-metadata', 'metadata is copied onto a replacement only if it differs from the node, both are '
                     'parsed objects and the replacement has none of its own'),
    ('C16-order', 'callbacks run in the order given'), ('C16-once', 'each callback is applied once per node'),
    ('C16-replace', '_replace builds the copy through the class and copies metadata onto it'),
]


def run(rep, tier):
    rep.explanation = (
        'All paths of _transform and of the callback chain inside transform() are enumerated '
        'symbolically. Rules: the object branch returns callback(node) or '
        'callback(node._replace(**updates)) after the loop over node._fields (post-order, each parent '
        'rebuilt from transformed children); updates are recorded only under an identity test; lists '
        'are rebuilt element-wise, other leaves returned unchanged; no attribute/subscript store or '
        'mutating call has the input node as receiver (purity); the metadata copy onto a callback '
        'result carries all four guards; callbacks iterate in the given order; ParsedObject._replace '
        'constructs the copy through the class and copies the metadata (shared with C14).')
    rep.not_decided += ['"exactly once per occurrence" when callbacks alias nodes']
    for r, t in RULES:
        rep.rule(r, t)
    for what, tree, rel in C15.subjects():
        fns = load.functions_of(tree)
        found = []
        stats = walkers.check_transform(fns, what, lambda rule, msg: found.append((rule, msg)))
        from .. import objects
        objects.check_replace(tree, what, lambda rule, msg: found.append((rule, msg)))
        # the emptiness test on the replacement's metadata presupposes that new objects start empty
        objects.check_metadata(tree, what, lambda rule, msg: found.append((rule, msg)) if rule.startswith('C16-') else None)
        rep.count('transform implementations analysed')
        rep.count('paths enumerated', stats['paths'])
        rep.obligations += len(RULES)
        rep.discharged += len(RULES) - len({r for r, _ in found})
        for rule, msg in found:
            rep.add(Finding(rule, f'{rel}:transform', '', msg, f'{rel}:transform/_transform',
                            {'function': ast.unparse(fns['_transform'])}))
    rep.floor('transform implementations analysed', rep.instances.get('transform implementations analysed', 0), 3)
    from .. import controls
    controls.walker_controls(rep)
