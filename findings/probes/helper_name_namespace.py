from sourcer import Grammar
import re
def t(desc, text):
    try:
        g = Grammar(desc, include_source=True)
        ids = sorted(set(re.findall(r'_helper_function_\d+', g._source_code)))
        print('helpers', ids)
        print(repr(desc)[:80], '->', repr(g.parse(text)))
    except Exception as e:
        print(repr(desc)[:80], 'EXC', type(e).__name__, str(e)[:200])
d = 'start = T(["a", x]) \nT(p) = p\nx = "b"\n'
t(d, 'ab')
g = Grammar(d, include_source=True)
ids = sorted(set(re.findall(r'_helper_(function_\d+)', g._source_code)))
print(ids)
d2 = d.replace('x = "b"', ids[0] + ' = "b"').replace('x]', ids[0] + ']')
print(d2)
t(d2, 'ab')
