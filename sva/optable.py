"""C02 (a)/(e): agreement between the tags OperatorTable.create attaches to operators and
the decision the emitted shunting-yard loop takes on them; where the non-associativity
test sits; Longest's tie rule.

The emitted decision is an if/elif chain over `_top_prec ? _prec` and `_top_assoc == k`.
Precedences are only compared (<, ==), associativity ids only tested for equality with
constants, so evaluating the chain for the 3 orderings x the ids create() can produce is
exhaustive."""
import ast
import types

from .common import Finding, AnalysisError
from . import skeleton as SK
from . import metaeval as M
from . import flow as F

ASSOCS = ['prefix', 'left', 'right', 'infix', 'postfix', 'mixfix']


def tags_from_create(w):
    """-> {associativity: (tuple length, assoc id or None, bucket)} by partial evaluation of
    OperatorTable.create on one row of each kind"""
    cls = w.cls('OperatorTable')
    out = {}
    for a in ASSOCS:
        opd = SK.A('opd', 'CP')
        op = SK.A('op', 'CP')
        row = types.SimpleNamespace(associativity=a, operators=[op])
        t = w.it.call(w.it.getattr(cls, 'create'), [], dict(operand=opd, rows=[row]))
        bucket = None
        holder = None
        for b in ('prefixes', 'postfixes', 'infixes', 'operands'):
            v = t.d.get(b)
            if b == 'operands':
                if v is not opd:
                    bucket, holder = b, v
            elif v is not None:
                bucket, holder = b, v
        if bucket is None:
            raise AnalysisError(f'OperatorTable.create drops a row of kind {a}')
        if bucket == 'operands':
            out[a] = (None, None, bucket)
            continue
        if not (isinstance(holder, M.Obj) and holder.cls.name == 'Apply'):
            raise AnalysisError(f'OperatorTable.create: {a} operators are not tagged through Apply')
        tagger = holder.d['expr2']
        src = tagger.d.get('source_code') if isinstance(tagger, M.Obj) else None
        if holder.d.get('apply_left') or not isinstance(src, str):
            raise AnalysisError(f'OperatorTable.create: unexpected tagger for {a}')
        lam = ast.parse(src, mode='eval').body
        if not (isinstance(lam, ast.Lambda) and isinstance(lam.body, ast.Tuple)):
            raise AnalysisError(f'OperatorTable.create: tagger for {a} is not `lambda x: (...)`: {src}')
        elts = lam.body.elts
        vals = []
        for e in elts[:-1]:
            if not isinstance(e, ast.Constant):
                raise AnalysisError(f'tagger for {a}: non-constant slot {ast.unparse(e)}')
            vals.append(e.value)
        if not (isinstance(elts[-1], ast.Name) and elts[-1].id == lam.args.args[0].arg):
            raise AnalysisError(f'tagger for {a}: last slot is not the operator value')
        out[a] = (len(elts), vals[1] if len(vals) > 1 else None, bucket)
        out[a + ':prec0'] = vals[0]
    return out


def precedence_is_row_index(w):
    """rows i<j get precedence tags p_i < p_j (earlier rows bind tighter in the emitted `<`)"""
    cls = w.cls('OperatorTable')
    rows = [types.SimpleNamespace(associativity='left', operators=[SK.A(f'o{i}', 'CP')]) for i in range(3)]
    t = w.it.call(w.it.getattr(cls, 'create'), [], dict(operand=SK.A('opd', 'CP'), rows=rows))
    inf = t.d.get('infixes')
    if not (isinstance(inf, M.Obj) and inf.cls.name == 'Longest'):
        return None, 'rows of infix operators are not combined with Longest'
    precs = []
    for e in inf.d['exprs']:
        lam = ast.parse(e.d['expr2'].d['source_code'], mode='eval').body
        precs.append(lam.body.elts[0].value)
    return precs, None


def eval_formula(e, env):
    if isinstance(e, ast.BoolOp):
        vals = [eval_formula(v, env) for v in e.values]
        return all(vals) if isinstance(e.op, ast.And) else any(vals)
    if isinstance(e, ast.UnaryOp) and isinstance(e.op, ast.Not):
        return not eval_formula(e.operand, env)
    if isinstance(e, ast.Compare):
        l = eval_formula(e.left, env)
        res = True
        for op, c in zip(e.ops, e.comparators):
            r = eval_formula(c, env)
            ok = {ast.Lt: l < r, ast.LtE: l <= r, ast.Gt: l > r, ast.GtE: l >= r,
                  ast.Eq: l == r, ast.NotEq: l != r}.get(type(op))
            if ok is None:
                raise AnalysisError(f'unsupported comparison in decision formula: {ast.unparse(e)}')
            res = res and ok
            l = r
        return res
    if isinstance(e, ast.Name):
        if e.id not in env:
            raise AnalysisError(f'decision formula reads unknown name {e.id}')
        return env[e.id]
    if isinstance(e, ast.Constant):
        return e.value
    raise AnalysisError(f'unsupported node in decision formula: {ast.unparse(e)}')


def tag_agreement(rep):
    w = SK.World()
    rep.rule('C02-tags', 'associativity ids / tuple shapes produced by OperatorTable.create agree with the '
                         'constants and slots tested in the emitted loop; the emitted decision is '
                         'reduce / end / shift exactly as precedence and associativity dictate')
    rep.rule('C02-conflict-in-loop', 'the non-associativity test is evaluated inside the reduction loop, '
                                     'against every exposed stack top')
    tags = tags_from_create(w)
    where = 'sourcer/expressions/operator_table.py:OperatorTable.create/_compile'

    def bad(rule, msg, detail=None):
        rep.add(Finding(rule, 'OperatorTable', '', msg, where, detail or {}))
    rep.count('operator row kinds evaluated', len(ASSOCS))
    # buckets
    want_bucket = {'prefix': 'prefixes', 'left': 'infixes', 'right': 'infixes', 'infix': 'infixes',
                   'postfix': 'postfixes', 'mixfix': 'operands'}
    for a, b in want_bucket.items():
        rep.oblige(tags[a][2] == b)
        if tags[a][2] != b:
            bad('C02-tags', f'`{a}` rows are collected under {tags[a][2]}, expected {b}')
    for a in ('prefix', 'left', 'right', 'infix'):
        if tags[a][0] != 3:
            bad('C02-tags', f'`{a}` operators are tagged with a {tags[a][0]}-tuple; the loop unpacks 3 slots')
    if tags['postfix'][0] != 2:
        bad('C02-tags', f'`postfix` operators are tagged with a {tags["postfix"][0]}-tuple; the loop reads '
                        f'slot 0 (precedence) and slot 1 (operator)')
    ids = {a: tags[a][1] for a in ('prefix', 'left', 'right', 'infix')}
    if len(set(ids.values())) != 4:
        bad('C02-tags', f'associativity ids are not distinct: {ids}')
    if ids['prefix'] or not all(ids[a] for a in ('left', 'right', 'infix')):
        bad('C02-tags', f'slot 1 doubles as the is-binary flag: prefix must be falsy and left/right/infix '
                        f'truthy, got {ids}')
    precs, err = precedence_is_row_index(w)
    if err:
        bad('C02-tags', err)
    elif not (precs[0] < precs[1] < precs[2]):
        bad('C02-tags', f'precedence tags of successive rows are {precs}: they must increase with the row index')
    rep.oblige(True, 4)
    # the emitted decision chain
    cfg = SK.Config('OperatorTable', ['o', [], SK.A('pre', 'CP'), SK.A('opd', 'CP'), SK.A('post', 'CP'),
                                      SK.A('inf', 'CP')], {}, {}, label='OperatorTable:decision')
    b = w.build(cfg)
    tree = b.tree
    # reduction loop: the while loop (after the infix child) that pops the operator stack and whose
    # test is the operator stack itself
    main = [n for n in tree.body if isinstance(n, ast.While)]
    if len(main) != 1:
        raise AnalysisError('OperatorTable skeleton: main loop not found')
    body = main[0].body
    idx = [i for i, st in enumerate(body) if F.is_child_marker(st) and st.value.args[0].value == 'inf']
    if len(idx) != 1:
        raise AnalysisError('OperatorTable skeleton: infix child not found in the main loop')
    after = body[idx[0] + 1:]
    loops = [st for st in after if isinstance(st, ast.While)]
    red = [l for l in loops if any(isinstance(n, ast.Call) and isinstance(n.func, ast.Attribute)
                                   and n.func.attr == 'pop' for n in ast.walk(l))]
    if len(red) != 1:
        raise AnalysisError(f'OperatorTable skeleton: expected one reduction loop after the infix operator, '
                            f'found {len(red)}')
    red = red[0]
    # names: the unpack of stack[-1] inside the loop gives (top_prec, top_assoc, _)
    unpack = [st for st in red.body if isinstance(st, ast.Assign) and isinstance(st.targets[0], ast.Tuple)
              and isinstance(st.value, ast.Subscript)]
    if len(unpack) != 1 or len(unpack[0].targets[0].elts) != 3:
        raise AnalysisError('OperatorTable skeleton: the stack top is not unpacked into three names')
    tp, ta, _ = [e.id for e in unpack[0].targets[0].elts]
    # current precedence: name assigned from _result[0] before the loop
    cur = [st for st in after if isinstance(st, ast.Assign) and isinstance(st.value, ast.Subscript)
           and isinstance(st.value.value, ast.Name) and st.value.value.id == '_result'
           and isinstance(st.value.slice, ast.Constant) and st.value.slice.value == 0]
    if len(cur) != 1:
        raise AnalysisError('OperatorTable skeleton: current precedence is not read from slot 0 of the operator')
    cp = cur[0].targets[0].id
    chain = [st for st in red.body if isinstance(st, ast.If)]
    if len(chain) != 1:
        raise AnalysisError('OperatorTable skeleton: reduction loop does not contain one decision chain')

    def action_of(stmts):
        pops = any(isinstance(n, ast.Call) and isinstance(n.func, ast.Attribute) and n.func.attr == 'pop'
                   for st in stmts for n in ast.walk(st))
        restore = any(isinstance(st, ast.Assign) and any(isinstance(t, ast.Name) and t.id == '_pos'
                                                         for t in st.targets) for st in stmts)
        brk = any(isinstance(st, ast.Break) for st in stmts)
        if pops and not brk:
            return 'reduce'
        if restore and brk:
            return 'end'
        if brk and not pops:
            return 'shift'
        return '?'

    def decide(env):
        node = chain[0]
        while True:
            if eval_formula(node.test, env):
                return action_of(node.body)
            if len(node.orelse) == 1 and isinstance(node.orelse[0], ast.If):
                node = node.orelse[0]
                continue
            return action_of(node.orelse) if node.orelse else 'fallthrough'
    expected = {}
    for rel, (t, c) in {'tighter': (3, 5), 'same': (5, 5), 'looser': (7, 5)}.items():
        for a in ('prefix', 'left', 'right', 'infix'):
            if rel == 'tighter':
                exp = 'reduce'
            elif rel == 'looser':
                exp = 'shift'
            else:
                exp = {'left': 'reduce', 'right': 'shift', 'infix': 'end', 'prefix': 'shift'}[a]
            got = decide({tp: t, cp: c, ta: ids[a]})
            rep.count('decision cases evaluated')
            rep.oblige(got == exp)
            expected[(rel, a)] = (exp, got)
            if got != exp:
                bad('C02-tags', f'operator on the stack: {rel} row, `{a}` (id {ids[a]}): the emitted loop '
                                f'decides {got}, precedence/associativity dictate {exp}',
                    {'chain': ast.unparse(chain[0])})
    rep.sample({'decision table (stack top relation, assoc) -> (expected, emitted)':
                {f'{k[0]},{k[1]}': v for k, v in expected.items()}})
    # (e) any end-of-expression decision taken on associativity outside the reduction loop?
    outside = []
    for st in after:
        if st is red:
            continue
        for n in ast.walk(st):
            if isinstance(n, ast.If) and action_of(n.body) == 'end' and any(
                    isinstance(c, ast.Constant) and c.value == ids['infix'] for c in ast.walk(n.test)):
                outside.append(n)
    inside_end = any(v[1] == 'end' for v in expected.values())
    if outside or not inside_end:
        bad('C02-conflict-in-loop',
            'the test for a second non-associative operator of the same row is '
            + ('made outside the reduction loop (only against the current stack top, before tighter '
               'operators above it have been reduced)' if outside else 'missing from the reduction loop')
            + ': `a < b + c < d` chains', {'skeleton': b.src})
    rep.oblige(not outside and inside_end)


def _eval_expr(e, env):
    """values of a side-effect free test expression over a finite environment (names -> values)"""
    if isinstance(e, ast.BoolOp):
        val = None
        for v in e.values:
            val = _eval_expr(v, env)
            if isinstance(e.op, ast.And) and not val:
                return val
            if isinstance(e.op, ast.Or) and val:
                return val
        return val
    if isinstance(e, ast.UnaryOp) and isinstance(e.op, ast.Not):
        return not _eval_expr(e.operand, env)
    if isinstance(e, ast.UnaryOp) and isinstance(e.op, ast.USub):
        return -_eval_expr(e.operand, env)
    if isinstance(e, ast.Compare):
        l = _eval_expr(e.left, env)
        for op, c in zip(e.ops, e.comparators):
            r = _eval_expr(c, env)
            ok = {ast.Lt: lambda: l < r, ast.LtE: lambda: l <= r, ast.Gt: lambda: l > r, ast.GtE: lambda: l >= r,
                  ast.Eq: lambda: l == r, ast.NotEq: lambda: l != r}.get(type(op))
            if ok is None:
                raise AnalysisError(f'unsupported comparison: {ast.unparse(e)}')
            if not ok():
                return False
            l = r
        return True
    if isinstance(e, ast.Name):
        if e.id not in env:
            raise KeyError(e.id)
        return env[e.id]
    if isinstance(e, ast.Constant):
        return e.value
    if isinstance(e, ast.Subscript):
        return _eval_expr(e.value, env)[_eval_expr(e.slice, env)]
    if isinstance(e, ast.Call) and isinstance(e.func, ast.Name) and e.func.id == 'len' and len(e.args) == 1:
        return len(_eval_expr(e.args[0], env))
    if isinstance(e, ast.BinOp) and isinstance(e.op, (ast.Add, ast.Sub)):
        a, b_ = _eval_expr(e.left, env), _eval_expr(e.right, env)
        return a + b_ if isinstance(e.op, ast.Add) else a - b_
    raise AnalysisError(f'unsupported node in test: {ast.unparse(e)}')


def postfix_reduction(rep):
    """When a postfix operator arrives, every pending operator of a tighter (earlier) row is reduced
    first - however many there are - and nothing else decides: the emitted loop test is evaluated for
    every stack depth 0..3, every relation of the top's row to the postfix row, and every value of
    any other variable it mentions."""
    w = SK.World()
    rep.rule('C02-postfix-reduce', 'before a postfix operator is attached the operator stack is reduced while - and '
                                   'only while - its top belongs to a tighter row; the test depends on nothing else')
    cfg = SK.Config('OperatorTable', ['o', [], SK.A('pre', 'CP'), SK.A('opd', 'CP'), SK.A('post', 'CP'),
                                      SK.A('inf', 'CP')], {}, {}, label='OperatorTable:postfix')
    b = w.build(cfg)
    where = 'sourcer/expressions/operator_table.py:OperatorTable._compile'
    # the loop that pops the operator stack between the postfix child and the Postfix(...) node
    cands = []
    for node in ast.walk(b.tree):
        if isinstance(node, ast.While) and not (isinstance(node.test, ast.Constant)):
            if any(isinstance(n, ast.Call) and isinstance(n.func, ast.Attribute) and n.func.attr == 'pop'
                   for n in ast.walk(node)):
                cands.append(node)
    # among them the one followed (in its parent block) by the construction of Postfix(...)
    loop = None
    for parent in ast.walk(b.tree):
        for field in ('body', 'orelse'):
            blk = getattr(parent, field, None)
            if not isinstance(blk, list):
                continue
            for i, st in enumerate(blk):
                if st in cands and any('Postfix' in ast.unparse(x) for x in blk[i + 1:i + 4]):
                    loop = st
    if loop is None:
        raise AnalysisError('OperatorTable skeleton: reduction loop before the postfix node not found')
    names = {n.id for n in ast.walk(loop.test) if isinstance(n, ast.Name)} - {'len'}
    stack = next((n for n in names if 'stack' in n), None)
    popped = {n.func.value.id for n in ast.walk(loop) if isinstance(n, ast.Call) and isinstance(n.func, ast.Attribute)
              and n.func.attr == 'pop' and isinstance(n.func.value, ast.Name)}
    stack = next((n for n in names if n in popped), stack)
    if stack is None or '_result' not in names:
        raise AnalysisError(f'OperatorTable skeleton: cannot read the postfix reduction test `{ast.unparse(loop.test)}`')
    others = sorted(names - {stack, '_result'})
    import itertools
    n = 0
    for depth in range(0, 4):
        for rel, (top, cur) in {'tighter': (3, 5), 'same': (5, 5), 'looser': (7, 5)}.items():
            for vals in itertools.product(range(0, 4), repeat=len(others)):
                env = {stack: [(1, 1, 'x')] * max(depth - 1, 0) + ([(top, 1, 'x')] if depth else []),
                       '_result': (cur, 'op')}
                env.update(dict(zip(others, vals)))
                try:
                    got = bool(_eval_expr(loop.test, env))
                except (KeyError, IndexError, TypeError) as e:
                    raise AnalysisError(f'OperatorTable skeleton: postfix reduction test not evaluable: {e!r}')
                want = depth > 0 and rel == 'tighter'
                n += 1
                rep.oblige(got == want)
                if got != want:
                    rep.add(Finding('C02-postfix-reduce', 'OperatorTable', '',
                                    f'postfix operator arriving with {depth} pending operator(s), top of a {rel} row'
                                    + (f', {dict(zip(others, vals))}' if others else '') +
                                    f': the emitted test `{ast.unparse(loop.test)}` says '
                                    f'{"reduce" if got else "stop"}, the rows dictate {"reduce" if want else "stop"} '
                                    f'(a postfix operator of a later row wraps everything tighter that is pending)',
                                    where, {'skeleton': b.src}))
                    return
    rep.count('postfix reduction cases evaluated', n)


ROW_KINDS = ['prefix', 'left', 'right', 'infix', 'postfix', 'mixfix', 'empty']


def row_levels(rep, tier='quick'):
    """Every row that tags its operators gets a level strictly above the level of every earlier such
    row - whatever kinds of rows (mixfix, postfix, empty) lie in between.  The emitted loop compares
    levels with `<` / `==` only (decision tables above: lower = tighter, equal = same row), so two
    different rows with equal levels are treated as one row and a later row with a lower level binds
    tighter than an earlier one.  OperatorTable.create is partially evaluated on every sequence of row
    kinds up to the length below."""
    import itertools
    w = SK.World()
    rep.rule('C02-row-levels', 'OperatorTable.create: the precedence level of a row is strictly greater than the '
                               'level of every earlier row, for every sequence of row kinds (rows of operands, postfix '
                               'rows and empty rows included)')
    cls = w.cls('OperatorTable')
    where = 'sourcer/expressions/operator_table.py:OperatorTable.create'
    maxlen = 4 if tier == 'thorough' else 3
    n = 0

    def tagged(t):
        out = {}
        for bucket in ('prefixes', 'infixes', 'postfixes'):
            v = t.d.get(bucket)
            if v is None:
                continue
            items = v.d['exprs'] if isinstance(v, M.Obj) and v.cls.name == 'Longest' else [v]
            for it in items:
                if not (isinstance(it, M.Obj) and it.cls.name == 'Apply'):
                    raise AnalysisError(f'OperatorTable.create: entry of {bucket} is not tagged through Apply')
                src = it.d['expr2'].d.get('source_code') if isinstance(it.d['expr2'], M.Obj) else None
                try:
                    lam = ast.parse(src, mode='eval').body
                    level = lam.body.elts[0].value
                except Exception:
                    raise AnalysisError(f'OperatorTable.create: unreadable tagger {src!r}')
                if not isinstance(level, int) or isinstance(level, bool):
                    raise AnalysisError(f'OperatorTable.create: level slot of {src!r} is not an integer constant')
                op = it.d['expr1']
                out[op.label if isinstance(op, M.AbsChild) else None] = level
        return out

    for length in range(1, maxlen + 1):
        for kinds in itertools.product(ROW_KINDS, repeat=length):
            rows = [types.SimpleNamespace(associativity='left' if k == 'empty' else k,
                                          operators=[] if k == 'empty' else [SK.A(f'o{i}', 'CP')])
                    for i, k in enumerate(kinds)]
            t = w.it.call(w.it.getattr(cls, 'create'), [], dict(operand=SK.A('opd', 'CP'), rows=rows))
            lv = tagged(t)
            n += 1
            # several rows of one kind - and the operand with the mixfix forms - compete by *longest match*
            # (`f(x)` next to `f`, `1.5` next to `1`, `**` next to `*`): combined with Longest, in row order
            want_ops = ['opd'] + [f'o{i}' for i, k in enumerate(kinds) if k == 'mixfix']
            for bucket, members in (('operands', want_ops),
                                    ('prefixes', [f'o{i}' for i, k in enumerate(kinds) if k == 'prefix']),
                                    ('postfixes', [f'o{i}' for i, k in enumerate(kinds) if k == 'postfix']),
                                    ('infixes', [f'o{i}' for i, k in enumerate(kinds) if k in ('left', 'right', 'infix')])):
                if len(members) < 2:
                    continue
                v = t.d.get(bucket)
                got_cls = v.cls.name if isinstance(v, M.Obj) else type(v).__name__
                items = v.d.get('exprs') if isinstance(v, M.Obj) else None

                def label_of(x):
                    if isinstance(x, M.AbsChild):
                        return x.label
                    if isinstance(x, M.Obj) and x.cls.name == 'Apply' and isinstance(x.d.get('expr1'), M.AbsChild):
                        return x.d['expr1'].label
                    return None
                ok = got_cls == 'Longest' and items is not None and [label_of(x) for x in items] == members
                rep.oblige(ok)
                if not ok:
                    rep.add(Finding('C02-row-levels', 'OperatorTable', bucket,
                                    f'rows {list(kinds)}: the {len(members)} forms of `{bucket}` are combined as '
                                    f'{got_cls}({[label_of(x) for x in (items or [])]}), expected Longest over {members} in row '
                                    f'order: with an ordered choice a form that starts like an earlier one but extends '
                                    f'further (`f(x)` after `f`, `1.5` after `1`) is never tried - the expression does not '
                                    f'extend over the longest fitting run', where, {'rows': list(kinds)}))
                    return
            seq = [(i, k, lv.get(f'o{i}')) for i, k in enumerate(kinds) if k not in ('mixfix', 'empty')]
            if any(l is None for _, _, l in seq):
                raise AnalysisError(f'OperatorTable.create: rows {kinds}: a tagged row was not found in its bucket')
            ok = all(a[2] < b[2] for a, b in zip(seq, seq[1:]))
            rep.oblige(ok)
            if not ok:
                a, b_ = next((a, b_) for a, b_ in zip(seq, seq[1:]) if not a[2] < b_[2])
                rep.add(Finding('C02-row-levels', 'OperatorTable', '',
                                f'rows {list(kinds)}: row {a[0]} (`{a[1]}`) gets level {a[2]} and the later row '
                                f'{b_[0]} (`{b_[1]}`) gets level {b_[2]}: the emitted loop reduces a pending operator '
                                f'only when its level is strictly lower, so the earlier row does not bind tighter '
                                f'than the later one', where, {'rows': list(kinds), 'levels': seq}))
                return
    rep.count('row-kind sequences evaluated through OperatorTable.create', n)
    rep.floor('row-kind sequences evaluated through OperatorTable.create', n, 7 + 49 + 343)


def longest_ties(rep):
    """Among rows matching at the same place the longest match wins, first on ties: the
    emitted update test is a strict `<` on the position."""
    w = SK.World()
    rep.rule('C02-longest-ties', 'Longest replaces its candidate only on a strictly greater end position '
                                 '(first option wins ties)')
    cfg = SK.Config('Longest', [SK.A('c0', 'CP'), SK.A('c1', 'CP'), SK.A('c2', 'CP')], {}, {},
                    label='Longest:ties')
    b = w.build(cfg)
    # every `farthest = _result` after option 1 must sit under `not has_result` or `farthest_pos < _pos`
    bad_tests = []
    n = 0
    for node in ast.walk(b.tree):
        if isinstance(node, ast.If):
            for t in ast.walk(node.test):
                if isinstance(t, ast.Compare) and len(t.ops) == 1 and any(
                        isinstance(x, ast.Name) and x.id == '_pos' for x in ast.walk(t)):
                    # success-side comparison (body assigns a result candidate from _result)
                    assigns_res = any(isinstance(s, ast.Assign) and isinstance(s.value, ast.Name)
                                      and s.value.id == '_result' for s in node.body)
                    sets_status = False
                    if assigns_res and 'error' not in ast.unparse(node.test):
                        n += 1
                        l, r = t.left, t.comparators[0]
                        strict = (isinstance(t.ops[0], ast.Lt) and isinstance(r, ast.Name) and r.id == '_pos') or \
                                 (isinstance(t.ops[0], ast.Gt) and isinstance(l, ast.Name) and l.id == '_pos')
                        if not strict:
                            bad_tests.append(ast.unparse(t))
    rep.count('Longest update comparisons examined', n)
    if n < 2:
        raise AnalysisError('Longest skeleton: candidate update comparisons not found')
    rep.oblige(not bad_tests)
    if bad_tests:
        rep.add(Finding('C02-longest-ties', 'Longest', '', f'candidate is replaced under `{bad_tests[0]}`: a later '
                        f'option of equal length would win a tie',
                        'sourcer/expressions/longest.py:Longest._compile', {'skeleton': b.src}))
