from sourcer import Grammar
g = Grammar('class P { self: "x" }\nstart = P')      # SyntaxError: duplicate argument 'self'
print(g.parse('x'))
