from sourcer import Grammar
import sys
try:
    g = Grammar('class Start { a: "x"; b: "y" }\nignore /\\s+/')
    print(g.parse('  x y '))
except Exception as e:
    print('ESCAPED', type(e).__name__, e); sys.exit(1)
