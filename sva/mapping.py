"""Translator mapping rules (C01 literals, C03 repeat/bounds, C19 alternative spellings).

`translator._create_parsing_expression` is evaluated by the ast interpreter on stub syntax
nodes, one representative per path of the mapping function (it branches only on node class,
operator spelling and literal prefix/suffix flags); results are canonicalised to
(class, attribute values) and compared."""
import ast

from .common import Finding, AnalysisError
from . import load
from . import metaeval as M
from . import modroute

N = modroute.node
_world = {}


def world():
    if 'R' not in _world:
        _world['R'] = modroute.Routes()
    return _world['R']


def create(tree):
    R = world()
    f = R.tr.env.get('_create_parsing_expression')
    if f is None:
        raise AnalysisError('anchor translator._create_parsing_expression vanished')
    return R.it.call(f, [tree], {})


def canon(v, bounds_as_text=True):
    """canonical form of an expression object: (class name, sorted relevant attributes)"""
    if isinstance(v, M.Obj):
        skip = {'program_id', 'num_blocks', 'skip_ignored', '_resolved', 'is_local', 'needs_parse_info',
                'extra_id', 'operand_str', 'row_strs'}
        items = []
        for k, x in sorted(v.d.items()):
            if k in skip:
                continue
            if v.cls.name == 'List' and k in ('min_len', 'max_len') and x is not None and bounds_as_text:
                x = str(x)         # int and str spellings of a bound are the same bound (C03 sibling rule)
            items.append((k, canon(x, bounds_as_text)))
        return (v.cls.name,) + tuple(items)
    if isinstance(v, (list, tuple)):
        return tuple(canon(x, bounds_as_text) for x in v)
    OS = load.load_outsourcer()
    if isinstance(v, OS.Code):
        return ('Code', str(v))
    return v


def leaf(s):
    return world().Str(s)


def py(src):
    return world().Py(src)


def ref(name):
    return world().Ref(name)


def call(name, *args, **kw):
    """syntax `Name(args, k=v)` after bottom-up transformation of its parts"""
    R = world()
    a = list(args) + [R.Kw(k, v) for k, v in kw.items()]
    return N('Postfix', left=ref(name), operator=N('ArgList', args=a))


def literal_rules(rep):
    """C01: string / regex / byte literals"""
    rep.rule('MAP-literal', 'a string literal becomes Str(literal_eval(text)); with the i suffix '
                            'Regex(re.escape(value), ignore_case=True); a regex literal keeps its body, b => bytes, '
                            'i => ignore_case; a byte literal becomes Byte(value)')
    import re
    cases = [
        ('"ab"', N('StringLiteral', value='"ab"'), ('Str', ('value', 'ab'))),
        ("'a.b'", N('StringLiteral', value="'a.b'"), ('Str', ('value', 'a.b'))),
        ('b"ab"', N('StringLiteral', value='b"ab"'), ('Str', ('value', b'ab'))),
        ('"""a\\nb"""', N('StringLiteral', value='"""a\\nb"""'), ('Str', ('value', 'a\nb'))),
        ('"a.b"i', N('StringLiteral', value='"a.b"i'), ('Regex', ('ignore_case', True), ('pattern', re.escape('a.b')))),
        ("'A+'I", N('StringLiteral', value="'A+'I"), ('Regex', ('ignore_case', True), ('pattern', re.escape('A+')))),
        ('/a+/', N('RegexLiteral', value='/a+/'), ('Regex', ('ignore_case', False), ('pattern', 'a+'))),
        ('/a+/i', N('RegexLiteral', value='/a+/i'), ('Regex', ('ignore_case', True), ('pattern', 'a+'))),
        ('b/a+/', N('RegexLiteral', value='b/a+/'), ('Regex', ('ignore_case', False), ('pattern', b'a+'))),
        ('b/a+/I', N('RegexLiteral', value='b/a+/I'), ('Regex', ('ignore_case', True), ('pattern', b'a+'))),
        ('/\\//', N('RegexLiteral', value='/\\//'), ('Regex', ('ignore_case', False), ('pattern', '\\/'))),
        ('0x41', N('ByteLiteral', prefix='0x', value=0x41), ('Byte', ('value', 0x41))),
    ]
    for label, tree, want in cases:
        try:
            got = canon(create(tree))
        except M.MetaRaise as e:
            got = f'raises {e}'
        rep.count('literal spellings mapped')
        rep.oblige(got == want)
        if got != want:
            rep.add(Finding('MAP-literal', 'sourcer/translator.py:_create_parsing_expression', label,
                            f'the literal {label} is translated to {got}, expected {want}',
                            'sourcer/translator.py:_create_parsing_expression'))
    rep.floor('literal spellings mapped', rep.instances.get('literal spellings mapped', 0), 12)


def repeat_mapping(rep):
    """C03: `{a,b}` -> List(left, min_len=start, max_len=stop) incl. names and inline Python"""
    rep.rule('MAP-repeat', 'e{a,b} becomes List(e, min_len=a, max_len=b); names and inline Python are kept as '
                           'text read at parse time; `None` means no bound')
    e = leaf('a')
    cases = [
        ('e{2}', py('2'), py('2'), ('2', '2')),                 # stop defaults to start in the metagrammar
        ('e{2,3}', py('2'), py('3'), ('2', '3')),
        ('e{2,}', py('2'), py('None'), ('2', None)),
        ('e{,3}', None, py('3'), (None, '3')),
        ('e{n}', ref('n'), ref('n'), ('n', 'n')),
        ('e{m,n}', ref('m'), ref('n'), ('m', 'n')),
        ('e{`k+1`}', py('k+1'), py('k+1'), ('k+1', 'k+1')),
        # zero is a bound like any other: as an upper bound it means "no element", not "no bound"
        ('e{0}', py('0'), py('0'), ('0', '0')),
        ('e{0,0}', py('0'), py('0'), ('0', '0')),
        ('e{,0}', None, py('0'), (None, '0')),
        ('e{0,}', py('0'), py('None'), ('0', None)),
        ('e{0,2}', py('0'), py('2'), ('0', '2')),
        ('e{1}', py('1'), py('1'), ('1', '1')),
    ]
    lower = lambda v: '0' if v is None else v          # no lower bound and a lower bound of 0 mean the same
    for label, start, stop, (wmin, wmax) in cases:
        tree = N('Postfix', left=e, operator=N('Repeat', open='{', start=start, stop=stop, close='}'))
        try:
            got = create(tree)
            ok = isinstance(got, M.Obj) and got.cls.name == 'List' and got.d.get('expr') is e \
                and lower(_s(got.d.get('min_len'))) == lower(wmin) and _s(got.d.get('max_len')) == wmax
            shown = canon(got)
        except M.MetaRaise as ex:
            ok, shown = False, f'raises {ex}'
        rep.count('repeat spellings mapped')
        rep.oblige(ok)
        if not ok:
            rep.add(Finding('MAP-repeat', 'sourcer/translator.py:_create_parsing_expression', label,
                            f'{label} is translated to {shown}, expected List(e, min_len={wmin!r}, max_len={wmax!r})',
                            'sourcer/translator.py:_create_parsing_expression'))
    rep.floor('repeat spellings mapped', rep.instances.get('repeat spellings mapped', 0), 13)


def _s(x):
    return None if x is None else str(x)


def bound_spellings(rep):
    """C03 sibling rule: wherever List compares min_len / max_len with a literal, the int and the str
    spelling of that literal are treated alike (the grammar syntax yields strings, the constructor
    form yields ints)."""
    rep.rule('BOUND-spellings', 'List treats the int and the str spelling of 0 / 1 alike in _compile, '
                                'always_succeeds and can_partially_succeed')
    from . import skeleton as SK
    w = SK.World()
    n = 0
    for a, b in ((0, '0'), (1, '1'), (2, '2')):
        for which in ('min_len', 'max_len'):
            for other in (None, 3, '3'):
                for st in ('AS', 'nCP', 'CP'):
                    res = []
                    for v in (a, b):
                        kw = {which: v, ('max_len' if which == 'min_len' else 'min_len'): other}
                        if which == 'max_len' and other is not None:
                            kw['min_len'] = None
                        ch = {'e': SK.A('e', st)}
                        cfg = SK.Config('List', [ch['e']], kw, ch, label='List:spelling')
                        try:
                            bd = w.build(cfg)
                            res.append((bd.AS, bd.CP, _norm_bounds(bd.src, v)))
                            res[-1] = res[-1][2:]
                        except SK.Rejected as ex:
                            res.append(('rejected',))
                    n += 1
                    ok = res[0] == res[1]
                    rep.oblige(ok)
                    if not ok:
                        rep.add(Finding('BOUND-spellings', 'List', f'{which}={a!r}/{b!r}',
                                        f'List({which}={a!r}) and List({which}={b!r}) emit different code (child {st}, '
                                        f'other bound {other!r})',
                                        'sourcer/expressions/list.py:List', {'int': res[0], 'str': res[1]}))
    rep.count('bound spelling pairs compared', n)
    rep.floor('bound spelling pairs compared', n, 50)


def _norm_bounds(src, v):
    # comments (which echo the spelling) are not code
    return ast.dump(ast.parse(src))


# ------------------------------------------------------------------ C19 alternative spellings
def bound_atomicity(rep):
    """A data-dependent bound is arbitrary inline Python (`e{`n or 2`}`): wherever List emits it into a
    comparison, the whole bound is one operand - whatever operators it contains."""
    rep.rule('BOUND-atomic', 'an inline-Python repetition bound is emitted as one operand of the length test '
                             '(parenthesised), whatever operators it contains')
    from . import skeleton as SK
    w = SK.World()
    n = 0
    for text in ('p or q', 'p if c else q', 'p and q', 'lambda: 3', 'p, q'):
        want = ast.dump(ast.parse(text, mode='eval').body)
        for which in ('min_len', 'max_len'):
            ch = {'e': SK.A('e', 'nCP')}
            kw = {'min_len': None, 'max_len': None}
            kw[which] = text
            cfg = SK.Config('List', [ch['e']], kw, ch, label='List:bound-atomic')
            try:
                b = w.build(cfg)
            except SK.Rejected:
                continue
            n += 1
            if b.tree is None:
                rep.oblige(False)
                rep.add(Finding('BOUND-atomic', 'List', f'{which}={text!r}',
                                f'List({which}={text!r}) emits code that is not valid Python',
                                'sourcer/expressions/list.py:List._compile'))
                continue
            tests = [t for t in ast.walk(b.tree) if isinstance(t, (ast.If, ast.While))]
            ok = False
            seen = []
            for t in tests:
                for c in ast.walk(t.test):
                    if isinstance(c, ast.Compare) and len(c.ops) == 1:
                        sides = [c.left, c.comparators[0]]
                        if any(isinstance(x, ast.Call) and isinstance(x.func, ast.Name) and x.func.id == 'len'
                               for x in sides):
                            seen.append(ast.unparse(t.test))
                            if any(ast.dump(x) == want for x in sides):
                                ok = True
            rep.oblige(ok)
            if not ok:
                rep.add(Finding('BOUND-atomic', 'List', f'{which}={text!r}',
                                f'List({which}=`{text}`) tests `{"; ".join(seen) or "nothing"}`: the bound is not one '
                                f'operand of the length comparison (operator precedence tears it apart), so '
                                f'`e{{`{text}`}}` does not repeat `({text})` times',
                                'sourcer/expressions/list.py:List._compile'))
    rep.count('compound bound texts checked', n)
    rep.floor('compound bound texts checked', n, 8)


def spelling_pairs(rep):
    rep.rule('MAP-spellings', 'each documented pair of spellings is translated to the same expression object '
                              '(class and attributes), by evaluating _create_parsing_expression on both syntax trees')
    a, b, c = leaf('a'), leaf('b'), leaf('c')
    T, F = py('True'), py('False')
    pairs = [
        ('e? / Opt(e)', N('Postfix', left=a, operator='?'), call('Opt', a)),
        ('e* / List(e)', N('Postfix', left=a, operator='*'), call('List', a)),
        ('e+ / Some(e)', N('Postfix', left=a, operator='+'), call('Some', a)),
        ('a >> b / Right(a, b)', N('Infix', left=a, operator='>>', right=b), call('Right', a, b)),
        ('a << b / Left(a, b)', N('Infix', left=a, operator='<<', right=b), call('Left', a, b)),
        ('a | b / Choice(a, b)', N('Infix', left=a, operator='|', right=b), call('Choice', a, b)),
        # alternatives keep the written order whatever they are - also literals one of which begins with another
        ('"a" | "ab" | "abc" / Choice("a", "ab", "abc")',
         ('lazy', lambda: N('Infix', left=create(N('Infix', left=leaf('a'), operator='|', right=leaf('ab'))), operator='|',
                            right=leaf('abc'))),
         ('lazy', lambda: call('Choice', leaf('a'), leaf('ab'), leaf('abc')))),
        ('"ab" | "a" / Choice("ab", "a")', ('lazy', lambda: N('Infix', left=leaf('ab'), operator='|', right=leaf('a'))),
         ('lazy', lambda: call('Choice', leaf('ab'), leaf('a')))),
        ('[a, b] / Seq(a, b)', N('ListLiteral', elements=[a, b]), call('Seq', a, b)),
        ('a // b / Sep(a, b)', N('Infix', left=a, operator='//', right=b), call('Sep', a, b)),
        ('a /? b / Sep(a, b, allow_trailer=True)', N('Infix', left=a, operator='/?', right=b),
         call('Sep', a, b, allow_trailer=T)),
        ('a // b / Sep(a, b, allow_trailer=False)', N('Infix', left=a, operator='//', right=b),
         call('Sep', a, b, allow_trailer=F)),
        ('e{2,3} / List(e, min_len=2, max_len=3)',
         N('Postfix', left=a, operator=N('Repeat', open='{', start=py('2'), stop=py('3'), close='}')),
         call('List', a, min_len=py('2'), max_len=py('3'))),
        ('e{2,} / List(e, min_len=2)',
         N('Postfix', left=a, operator=N('Repeat', open='{', start=py('2'), stop=py('None'), close='}')),
         call('List', a, min_len=py('2'))),
        ('e{,3} / List(e, max_len=3)',
         N('Postfix', left=a, operator=N('Repeat', open='{', start=None, stop=py('3'), close='}')),
         call('List', a, max_len=py('3'))),
        # bounds given by a bound name (data-dependent count): the documented pair holds for names too
        ('e{m,n} / List(e, min_len=m, max_len=n)',
         N('Postfix', left=a, operator=N('Repeat', open='{', start=ref('m'), stop=ref('n'), close='}')),
         call('List', a, min_len=ref('m'), max_len=ref('n'))),
        ('e{n} / List(e, min_len=n, max_len=n)',
         N('Postfix', left=a, operator=N('Repeat', open='{', start=ref('n'), stop=ref('n'), close='}')),
         call('List', a, min_len=ref('n'), max_len=ref('n'))),
        ('a |> f / Apply', N('Infix', left=a, operator='|>', right=b), call('Apply', a, b)),
        ('f <| a / Apply(apply_left)', N('Infix', left=a, operator='<|', right=b), call('Apply', a, b, apply_left=T)),
        ('e where p / Where(e, p)', N('Infix', left=a, operator='where', right=b), call('Where', a, b)),
    ]
    SEPD = dict(discard_separators=True, allow_empty=True, require_separator=False)

    def sep(trailer):
        return ('Sep', ('allow_empty', True), ('allow_trailer', trailer), ('discard_separators', True),
                ('expr', canon(a)), ('require_separator', False), ('separator', canon(b)))
    absolute = {
        'e? / Opt(e)': ('Opt', ('expr', canon(a))),
        'e* / List(e)': ('List', ('expr', canon(a)), ('max_len', None), ('min_len', None)),
        'e+ / Some(e)': ('List', ('expr', canon(a)), ('max_len', None), ('min_len', '1')),
        'a >> b / Right(a, b)': ('Discard', ('discard_left', True), ('expr1', canon(a)), ('expr2', canon(b))),
        'a << b / Left(a, b)': ('Discard', ('discard_left', False), ('expr1', canon(a)), ('expr2', canon(b))),
        'a | b / Choice(a, b)': ('Choice', ('exprs', (canon(a), canon(b)))),
        'a // b / Sep(a, b)': sep(False),
        'a /? b / Sep(a, b, allow_trailer=True)': sep(True),
        'a |> f / Apply': ('Apply', ('apply_left', False), ('expr1', canon(a)), ('expr2', canon(b))),
        'f <| a / Apply(apply_left)': ('Apply', ('apply_left', True), ('expr1', canon(a)), ('expr2', canon(b))),
        'e where p / Where(e, p)': ('Where', ('expr', canon(a)), ('predicate', canon(b))),
    }
    # compositionality: the translation is bottom-up, so an operator applied to an operand that is
    # itself a repetition / option / choice / sequence must give what the constructor form gives for
    # the same operand - the translator may not special-case combinations (`(e+)?` is Opt(Some(e)),
    # not `e*`: the values differ)
    def inner_operands():
        mk = [('e', lambda: leaf('a')),
              ('e+', lambda: create(N('Postfix', left=leaf('a'), operator='+'))),
              ('e*', lambda: create(N('Postfix', left=leaf('a'), operator='*'))),
              ('e?', lambda: create(N('Postfix', left=leaf('a'), operator='?'))),
              ('e{2,3}', lambda: create(N('Postfix', left=leaf('a'), operator=N(
                  'Repeat', open='{', start=py('2'), stop=py('3'), close='}')))),
              ('(e | f)', lambda: create(N('Infix', left=leaf('a'), operator='|', right=leaf('f')))),
              ('[e, f]', lambda: create(N('ListLiteral', elements=[leaf('a'), leaf('f')]))),
              ('(e // f)', lambda: create(N('Infix', left=leaf('a'), operator='//', right=leaf('f')))),
              ('(e >> f)', lambda: create(N('Infix', left=leaf('a'), operator='>>', right=leaf('f')))),
              ('Skip(e, f)', lambda: create(call('Skip', leaf('a'), leaf('f')))),
              ('Longest(e, f)', lambda: create(call('Longest', leaf('a'), leaf('f'))))]
        return mk
    post = [('?', 'Opt'), ('*', 'List'), ('+', 'Some')]
    binary = [('>>', 'Right'), ('<<', 'Left'), ('//', 'Sep')]
    for ilabel, mk_inner in inner_operands():
        if ilabel == 'e':
            continue
        for op, ctor in post:
            pairs.append((f'{ilabel}{op} / {ctor}({ilabel})',
                          ('lazy', lambda mk_inner=mk_inner, op=op: N('Postfix', left=mk_inner(), operator=op)),
                          ('lazy', lambda mk_inner=mk_inner, ctor=ctor: call(ctor, mk_inner()))))
        for op, ctor in binary:
            pairs.append((f'{ilabel} {op} b / {ctor}({ilabel}, b)',
                          ('lazy', lambda mk_inner=mk_inner, op=op: N('Infix', left=mk_inner(), operator=op, right=leaf('b'))),
                          ('lazy', lambda mk_inner=mk_inner, ctor=ctor: call(ctor, mk_inner(), leaf('b')))))
            pairs.append((f'b {op} {ilabel} / {ctor}(b, {ilabel})',
                          ('lazy', lambda mk_inner=mk_inner, op=op: N('Infix', left=leaf('b'), operator=op, right=mk_inner())),
                          ('lazy', lambda mk_inner=mk_inner, ctor=ctor: call(ctor, leaf('b'), mk_inner()))))
    # `|` merges nested *choices* into one flat Choice (documented); any other operand - a sequence, a
    # repetition, Skip, Longest (classes that also keep their children in `.exprs`) - is one alternative
    for ilabel, mk_inner in inner_operands():
        if ilabel in ('e', '(e | f)'):
            continue
        pairs.append((f'{ilabel} | b / Choice({ilabel}, b)',
                      ('lazy', lambda mk_inner=mk_inner: N('Infix', left=mk_inner(), operator='|', right=leaf('b'))),
                      ('lazy', lambda mk_inner=mk_inner: call('Choice', mk_inner(), leaf('b')))))
        pairs.append((f'b | {ilabel} / Choice(b, {ilabel})',
                      ('lazy', lambda mk_inner=mk_inner: N('Infix', left=leaf('b'), operator='|', right=mk_inner())),
                      ('lazy', lambda mk_inner=mk_inner: call('Choice', leaf('b'), mk_inner()))))
    for label, t1, t2 in pairs:
        if isinstance(t1, tuple) and t1[:1] == ('lazy',):
            try:
                t1, t2 = t1[1](), t2[1]()
            except M.MetaRaise as e:
                rep.add(Finding('MAP-spellings', 'sourcer/translator.py:_create_parsing_expression', label.split(' / ')[0],
                                f'{label}: translating the operand raises {e}',
                                'sourcer/translator.py:_create_parsing_expression'))
                continue
        if label in absolute:
            try:
                got = canon(create(t1))
            except M.MetaRaise as e:
                got = f'raises {e}'
            rep.count('operator forms compared with their documented meaning')
            # the documented meaning fixes the class and the attributes it names; attributes the class
            # may carry besides (caches, bookkeeping) are compared between the two spellings only
            want_abs = absolute[label]
            if isinstance(got, tuple) and got and got[0] == want_abs[0]:
                named = {k for k, _ in want_abs[1:]}
                got = (got[0],) + tuple(kv for kv in got[1:] if kv[0] in named)
            rep.oblige(got == absolute[label])
            if got != absolute[label]:
                rep.add(Finding('MAP-spellings', 'sourcer/translator.py:_create_parsing_expression',
                                label.split(' / ')[0] + ' (meaning)',
                                f'{label.split(" / ")[0]} is translated to {got}; its documented meaning is '
                                f'{absolute[label]}',
                                'sourcer/translator.py:_create_parsing_expression + sourcer/expressions/sugar.py'))
        res = []
        for t in (t1, t2):
            try:
                res.append(canon(create(t)))
            except M.MetaRaise as e:
                res.append(f'raises {e}')
        rep.count('spelling pairs compared')
        ok = res[0] == res[1] and not isinstance(res[0], str)
        rep.oblige(ok)
        if not ok:
            rep.add(Finding('MAP-spellings', 'sourcer/translator.py:_create_parsing_expression', label.split(' / ')[0],
                            f'{label}: the operator form gives {res[0]}, the constructor form gives {res[1]}',
                            'sourcer/translator.py:_create_parsing_expression + sourcer/expressions/sugar.py'))
    # choice flattening preserves order: (a | b) | c == Choice(a, b, c)
    ab = create(N('Infix', left=a, operator='|', right=b))
    abc = create(N('Infix', left=ab, operator='|', right=c))
    rep.count('spelling pairs compared')
    ok = isinstance(abc, M.Obj) and abc.cls.name == 'Choice' and list(abc.d.get('exprs')) == [a, b, c]
    a_bc = create(N('Infix', left=a, operator='|', right=create(N('Infix', left=b, operator='|', right=c))))
    ok = ok and list(a_bc.d.get('exprs')) == [a, b, c]
    rep.oblige(ok)
    if not ok:
        rep.add(Finding('MAP-spellings', 'sourcer/translator.py:_create_parsing_expression', 'a | b | c',
                        f'nested choices are not flattened in order: {canon(abc)}',
                        'sourcer/translator.py:_create_parsing_expression'))
    rep.floor('spelling pairs compared', rep.instances.get('spelling pairs compared', 0), 17)


def precedence_rows(rep):
    """the shipped parser's Expr operator table: precedence tags in the order grammar.txt states and the
    property lists; all binary rows left-associative"""
    rep.rule('MAP-precedence', 'metagrammar Expr table: postfix call/field < postfix ? * + {} < // /? < << >> < '
                               '<| |> where < | ; binary rows left-associative')
    tree = load.parse('sourcer/parser.py')
    fns = load.functions_of(tree)
    fn = fns.get('_try_Expr')
    if fn is None:
        raise AnalysisError('anchor _try_Expr vanished from sourcer/parser.py')
    # rows are recovered from the comments the generator writes for every tagged row
    # (`# <operators> |> `lambda x: (row, assoc, x)``), read with tokenize inside _try_Expr
    import io
    import re
    import tokenize
    src = load.read('sourcer/parser.py')
    rows = []
    seen = set()
    for tok in tokenize.generate_tokens(io.StringIO(src).readline):
        if tok.type == tokenize.COMMENT and fn.lineno <= tok.start[0] <= fn.end_lineno:
            m = re.match(r"#\s*(.*?) \|> `lambda x: \(([\d, ]+), x\)`\s*$", tok.string)
            if m and m.group(0) not in seen:
                seen.add(m.group(0))
                tag = tuple(int(x) for x in m.group(2).split(','))
                ops = re.findall(r"'([^']+)'", m.group(1))
                rows.append((tag, ops))
    # the tag in the comment must be the tag in the code that follows
    code_tags = set()
    for n in ast.walk(fn):
        if isinstance(n, ast.Lambda) and isinstance(n.body, ast.Tuple) and all(
                isinstance(e, ast.Constant) for e in n.body.elts[:-1]):
            code_tags.add(tuple(e.value for e in n.body.elts[:-1]))
    for tag, ops in rows:
        if tag not in code_tags:
            raise AnalysisError(f'sourcer/parser.py: row comment with tag {tag} has no matching tagger lambda')
    by_ops = {}
    for tag, ops in rows:
        for o in ops:
            by_ops[o] = tag
    rep.count('operator rows found in the shipped parser', len(rows))
    rep.sample({'Expr rows (tag, operators)': [(list(t), o) for t, o in rows]})
    groups = [['?', '*', '+'], ['//', '/?'], ['<<', '>>'], ['<|', '|>', 'where'], ['|']]
    last = None
    for g in groups:
        tags = {by_ops.get(o) for o in g}
        rep.oblige(len(tags) == 1 and None not in tags)
        if len(tags) != 1 or None in tags:
            rep.add(Finding('MAP-precedence', 'sourcer/parser.py:_try_Expr', '/'.join(g),
                            f'operators {g} do not share one row of the Expr table (tags {tags})',
                            'sourcer/parser.py:_try_Expr / grammar.txt Expr'))
            continue
        tag = tags.pop()
        if last is not None and not tag[0] > last[0]:
            rep.add(Finding('MAP-precedence', 'sourcer/parser.py:_try_Expr', '/'.join(g),
                            f'row of {g} has precedence tag {tag[0]}, not after the previous group ({last[0]})',
                            'sourcer/parser.py:_try_Expr / grammar.txt Expr'))
        if len(tag) == 1 and g != groups[0]:
            rep.add(Finding('MAP-precedence', 'sourcer/parser.py:_try_Expr', '/'.join(g),
                            f'binary operators {g} are tagged as postfix', 'sourcer/parser.py:_try_Expr'))
        if len(tag) == 2 and tag[1] != 1:
            rep.add(Finding('MAP-precedence', 'sourcer/parser.py:_try_Expr', '/'.join(g),
                            f'binary operators {g} have associativity id {tag[1]}; `left` is 1',
                            'sourcer/parser.py:_try_Expr / grammar.txt Expr'))
        last = tag
    # the same order in grammar.txt (what regeneration would produce)
    gt = load.read('grammar.txt')
    i = gt.find('Expr = Atom between')
    if i < 0:
        raise AnalysisError('anchor `Expr = Atom between` vanished from grammar.txt')
    block = gt[i:gt.index('}', i)]
    order = []
    for line in block.splitlines()[1:]:
        if ':' in line:
            kind, ops = line.split(':', 1)
            order.append((kind.strip(), ops))
    pos = {}
    for idx, (kind, ops) in enumerate(order):
        for o in ('"?"', '"//"', '"<<"', '"<|"', 'wrap("|")'):
            if o in ops:
                pos[o] = (idx, kind)
    want = ['"?"', '"//"', '"<<"', '"<|"', 'wrap("|")']
    idxs = [pos.get(o, (None, None))[0] for o in want]
    ok = None not in idxs and idxs == sorted(idxs) and len(set(idxs)) == len(idxs) \
        and all(pos[o][1] == 'left' for o in want[1:]) and pos['"?"'][1] == 'postfix'
    rep.oblige(ok)
    if not ok:
        rep.add(Finding('MAP-precedence', 'grammar.txt:Expr', 'row-order',
                        f'grammar.txt lists the Expr rows in the order {order}', 'grammar.txt Expr'))
