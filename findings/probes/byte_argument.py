from sourcer import Grammar
import sys
try:
    g = Grammar('T(p) = p >> 0x21\nstart = T(0x41)')
    print(g.parse(b'A!'))
except RecursionError as e:
    print('ESCAPED RecursionError'); sys.exit(1)
