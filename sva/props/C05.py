"""C05 - bound names and data-dependent predicates."""
import ast

from ..common import Finding, AnalysisError
from .. import load, routes, e1run
from . import shared

# verbatim-emission sites that are not user-bound names (one line of reason each)
NOT_USER_LOCALS = {
    ('Seq', 'constructor'): 'the class name: a module-level name of the generated module',
    ('Ref', 'resolved'): 'reported to SymbolCounter through is_reference / name',
    ('Ref', 'name'): 'reported to SymbolCounter through is_reference / name',
}


def freevar_protocol(rep):
    """(b) every route by which description text becomes Python code inside a rule function is known
    to the free-variable protocol: functionalize() (spill helpers and argument closures) passes
    exactly freevars(), which SymbolCounter computes from defines_local / has_params / is_reference.

    Decided on what is emitted, not on how the generator is written: every string-valued constructor
    argument of every expression class is given a marker identifier; if the marker comes out as a
    name that the emitted skeleton *reads* although freevars() of the object does not report it, or
    as a name the skeleton *binds* although the class does not declare a binding (defines_local),
    the protocol does not know that piece of description text."""
    from .. import skeleton as SK, metaeval as M
    MARK = 'zz_fv_marker'
    w = SK.World()
    n = 0
    keys = set()
    done = set()
    for K in sorted(w.classes()):
        if K in ('Call', 'Class', 'KeywordArg', 'Rule'):
            continue
        params = SK.CTOR_PARAMS.get(K, [])
        tried = {}
        for cfg in SK.enumerate_configs(w, K, 'quick'):
            if cfg.ctx:
                continue
            for i, prm in enumerate(params):
                if prm.startswith('*') or tried.get(prm, 0) >= 6:
                    continue
                # current value of this parameter in the configuration
                if prm in cfg.kwargs:
                    cur, where_ = cfg.kwargs[prm], 'kw'
                elif i < len(cfg.args):
                    cur, where_ = cfg.args[i], 'arg'
                else:
                    continue
                variants = []
                if cur is None or isinstance(cur, (str, int)) and not isinstance(cur, bool):
                    variants.append((MARK, prm))
                elif isinstance(cur, list) and cur and all(x is None or isinstance(x, str) for x in cur):
                    variants.append(([MARK] + list(cur[1:]), '<member name>' if K == 'Seq' else prm))
                for val, attr in variants:
                    tried[prm] = tried.get(prm, 0) + 1
                    c2 = SK.Config(K, list(cfg.args), dict(cfg.kwargs), cfg.children, dict(cfg.post), False,
                                   label=f'{K}:{prm}=marker')
                    if where_ == 'kw':
                        c2.kwargs[prm] = val
                    else:
                        c2.args[i] = val
                    try:
                        b = w.build(c2)
                    except (SK.Rejected, M.MetaRaise, AnalysisError):
                        continue
                    except Exception:
                        continue
                    if b.tree is None:
                        continue
                    loads = any(isinstance(x, ast.Name) and x.id == MARK and isinstance(x.ctx, ast.Load)
                                for x in ast.walk(b.tree))
                    stores = any(isinstance(x, ast.Name) and x.id == MARK and isinstance(x.ctx, ast.Store)
                                 for x in ast.walk(b.tree))
                    if not loads and not stores:
                        continue
                    n += 1
                    key = (K, attr)
                    keys.add(key)
                    try:
                        fv = set(w.call(b.obj, 'freevars') or ())
                    except Exception:
                        fv = set()
                    binder = False
                    try:
                        binder = bool(w.it.getattr(b.obj, 'defines_local'))
                    except Exception:
                        binder = False
                    reference = MARK in fv
                    # a reference that the translator still has to classify (Ref before _update_local_references)
                    if K == 'Ref' and not cfg.post.get('is_local'):
                        reference = True
                    ok = (not loads or reference or (stores and binder)) and (not stores or binder)
                    if key in NOT_USER_LOCALS:
                        ok = True
                    if (key, ok) in done:
                        continue
                    done.add((key, ok))
                    rep.oblige(ok)
                    if not ok:
                        rel = b.obj.cls.module.rel
                        kind = 'binds a local' if stores and not binder else \
                            'pastes description text that may mention bound names'
                        rep.add(Finding('FREEVAR-visible', f'{rel}:{K}', attr,
                                        f'{K} emits its `{prm}` verbatim into the rule function - it {kind} - but the '
                                        f'class neither declares the binding (defines_local/has_params) nor reports '
                                        f'a reference (is_reference): freevars() does not see the name, so a helper '
                                        f'function or argument closure built around it does not receive it (NameError)',
                                        f'{rel}:{K}._compile'))
    rep.count('verbatim emission sites examined', n)
    rep.count('distinct (class, attribute) pairs emitted verbatim', len(keys))
    rep.floor('distinct (class, attribute) pairs emitted verbatim', len(keys), 5)
    # SymbolCounter itself: binds on defines_local and has_params, references on is_reference
    base = load.parse('sourcer/expressions/base.py')
    sc = load.classes_of(base).get('SymbolCounter')
    if sc is None:
        raise AnalysisError('anchor base.SymbolCounter vanished')
    src = ast.unparse(sc)
    for needle in ('defines_local', 'has_params', 'is_reference', 'is_local', 'freevars'):
        if needle not in src:
            rep.add(Finding('FREEVAR-visible', 'sourcer/expressions/base.py:SymbolCounter', needle,
                            f'SymbolCounter no longer consults {needle}', 'sourcer/expressions/base.py:SymbolCounter'))


def reference_pass_order(rep):
    """local references are marked before rule references are resolved (the resolution is guarded by
    `not node.is_local`)"""
    tree = load.parse('sourcer/translator.py')
    g = load.functions_of(tree).get('generate_source_code')
    if g is None:
        raise AnalysisError('anchor generate_source_code vanished')
    order = []
    for n in ast.walk(g):
        if isinstance(n, ast.Call) and isinstance(n.func, ast.Name) and n.func.id in (
                '_update_local_references', '_update_rule_references', '_assign_ids'):
            order.append((n.lineno, n.func.id))
    order = [x for _, x in sorted(order)]
    rep.count('translator passes ordered', len(order))
    if '_update_local_references' in order and '_update_rule_references' in order:
        ok = order.index('_update_local_references') < order.index('_update_rule_references')
        rep.oblige(ok)
        if not ok:
            rep.add(Finding('LOCAL-shadow', 'sourcer/translator.py:generate_source_code', 'pass-order',
                            'rule references are resolved before local references are marked: the guard '
                            '`not node.is_local` is still False for every reference, so a parameter or let '
                            'variable spelled like a rule is emitted as that rule',
                            'sourcer/translator.py:generate_source_code'))
    else:
        raise AnalysisError('anchor passes _update_local_references/_update_rule_references vanished')


def run(rep, tier):
    rep.explanation = (
        '(a) Let and Seq-with-names skeletons: at the start of every later child the bound name holds '
        'the value of its expression (E1 provenance, all configurations); binders are plain local '
        'stores of the rule function (G5: no global/nonlocal/attribute target), so every generator '
        'frame - attempt, recursive or sibling invocation, parse - has its own binding; locally bound '
        'names are emitted as locals even when a rule of the same name exists (route `shadow`, both '
        'conventions, plus the order of the two reference passes). (b) every verbatim emission site '
        'Code(self.x) of description text is either a declared binder or a reported reference. '
        '(c) Where / Apply value-flow rows (E1). (d) generated classes: _fields = __init__ parameters = '
        'repr keywords = constructor call arguments in declaration order; let / pass members are '
        'parsed but not passed; requires is evaluated.')
    rep.not_decided += ['what user Python computes']
    shared.describe_rules(rep, only=('S-binder', 'S-value', 'S-flow', 'G5-local-stores', 'G2-as-sound', 'G2-cp-sound',
                                     'G6-temp-unique'))
    for rid, txt in [
        ('LOCAL-shadow', 'locally bound names are emitted as locals, not as rules of the same name'),
        ('LOCAL-let-scope', 'after a nested `let` of the same name has ended, the name denotes the outer value again'),
        ('ARG-captures', 'a compound template argument is handed exactly the local names it uses (free variables '
                         'of the skeleton object) at the place of the call'),
        ('PY-in-place', 'inline Python (predicates, applied functions, let values, arguments, bounds) is evaluated inside '
                        'the rule function, where the bound names are in scope - never hoisted to module level'),
        ('G3-protocol', 'List with name bounds: every exit leaves the registers definite (a count that is 0 at run time '
                        'does not read a stale status)'),
        ('FREEVAR-visible', 'every verbatim emission of description text is visible to the free-variable protocol'),
        ('C05-class-ctor', 'constructor call lists exactly the fields, in order'),
        ('C05-class-members', 'let/pass members parsed but not passed; requires evaluated; binding order'),
        ('C14-field-tables', 'generated class field tables agree'),
    ]:
        rep.rule(rid, txt)
    total = e1run.run(rep, ['Let', 'Seq', 'Where', 'Apply'], tier,
                      select=lambda f: f['rule'] in ('S-binder', 'S-value', 'S-flow', 'G5-local-stores',
                                                     'G1-no-trace', 'G2-as-sound', 'G2-cp-sound',
                                                     'G3-protocol', 'G6-temp-unique'))
    for K, want in {'Let': 18, 'Seq': 1300, 'Where': 18, 'Apply': 36}.items():
        rep.floor(f'configurations of {K}', total.get(K, 0), want)
    # data-dependent repetition counts: the configurations of List whose bounds are names
    sym = lambda f: any(f"{b}='n'" in str(f.get('config', '')) for b in ('min_len', 'max_len'))
    tl = e1run.run(rep, ['List'], tier,
                   select=lambda f: sym(f) and f['rule'] in ('S-value', 'S-flow', 'S-list', 'G1-no-trace', 'G2-as-sound',
                                                               'G2-cp-sound', 'G3-protocol'))
    rep.floor('configurations of List', tl.get('List', 0), 100)
    # a repetition count written as inline Python over earlier-bound names denotes the value of that expression:
    # the emitted length tests must keep the bound text in one piece (rule shared with C03 / C19)
    from .. import mapping
    mapping.bound_atomicity(rep)
    shared.driver_memo_per_call(rep)
    found, stats, nmods = routes.run(rep, 'C05', ['LOCAL-shadow', 'LOCAL-let-scope', 'PY-in-place', 'C05-', 'C14-field-tables',
                                                   'ARG-captures', 'ARG-key-complete'])
    rep.floor('generated classes examined', stats['classes'], 12)
    freevar_protocol(rep)
    reference_pass_order(rep)
    shared.entry_closure_rule(rep)
    from .. import controls
    controls.e1_controls(rep)
