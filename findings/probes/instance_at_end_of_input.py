from sourcer import Grammar
import sys
g = Grammar('class Foo { a: "x"? }\nstart = "y"* >> Foo')
bad = 0
for text in ['', 'y', 'yx', 'x']:
    try:
        r = g.parse(text)
        print(repr(text), '->', r, r._metadata.position_info)
    except (g.ParseError, g.PartialParseError) as e:
        print(repr(text), type(e).__name__)
    except Exception as e:
        print(repr(text), 'ESCAPED', type(e).__name__, e); bad += 1
sys.exit(1 if bad else 0)
