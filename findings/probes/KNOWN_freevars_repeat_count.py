from sourcer import Grammar
# a repetition count bound at the call site, used inside a compound template argument
g = Grammar('T(p) = p << "!"\nU(n) = T(["a"{n}, "b"])\nstart = U(`2`)')
print(g.parse('aab!'))     # NameError: name 'n' is not defined
