"""C08 - parse has exactly three outcomes."""
import ast

from ..common import Finding, AnalysisError
from .. import load, routes, trampoline, finalize


def exception_classes(tree, what, rep):
    cs = load.classes_of(tree)
    for name, want in (('ParseError', ['message', 'index', 'line', 'column']),
                       ('PartialParseError', ['partial_result', 'last_position', 'excerpt'])):
        c = cs.get(name)
        if c is None:
            raise AnalysisError(f'{what}: anchor class {name} vanished')
        init = next((m for m in c.body if isinstance(m, ast.FunctionDef) and m.name == '__init__'), None)
        params = [a.arg for a in init.args.args][1:] if init else None
        rep.oblige(params == want)
        if params != want:
            rep.add(Finding('EXC-classes', f'{name}', '', f'{what}: {name}.__init__ takes {params}; the raise sites '
                            f'pass {want}', 'sourcer/translator.py (runtime classes)'))
        if not any(isinstance(b, ast.Name) and b.id == 'InputError' for b in c.bases):
            rep.add(Finding('EXC-classes', f'{name}', 'base', f'{what}: {name} no longer derives from InputError',
                            'sourcer/translator.py (runtime classes)'))
    from .. import paths as P

    def stores_of(cname):
        init = next(m for m in cs[cname].body if isinstance(m, ast.FunctionDef) and m.name == '__init__')
        out = {}
        for p in P.Enumerator().function(init):
            for e in p.events('attrstore'):
                if e[2][1] == ('PARAM', 'self'):
                    out.setdefault(e[2][2], set()).add(P.canon_calls(e[3]))
        return out
    st = stores_of('PartialParseError')
    for attr in ('partial_result', 'last_position'):
        if st.get(attr) != {('PARAM', attr)}:
            rep.add(Finding('EXC-classes', 'PartialParseError', attr,
                            f'{what}: PartialParseError.{attr} is not the constructor argument of that name',
                            'sourcer/translator.py'))
    st = stores_of('ParseError')
    want = ('CALL', ('VAR', '_Position'), ('PARAM', 'index'), ('PARAM', 'line'), ('PARAM', 'column'))
    if st.get('position') != {want}:
        rep.add(Finding('EXC-classes', 'ParseError', 'position', f'{what}: ParseError.position is not '
                        f'_Position(index, line, column)', 'sourcer/translator.py'))


def run(rep, tier):
    rep.explanation = (
        'Entry points: every emitted _parse_<rule>, <Class>.parse (with and without parameters), the '
        'module parse() of plain, named and sub-grammar modules has parameters (text, pos=0, '
        'fullparse=True) and tail-calls the driver with (ctx?, text, pos, implementation, fullparse) '
        '(route modules, both conventions). Driver: on success returns through '
        '_finalize_parse_info(text, value, end, fullparse); on failure calls the error function from '
        'the result register; every generated error function raises ParseError(message, pos, line, col) '
        'on all paths. _finalize_parse_info: raises PartialParseError(nodes, _Position(pos, ...), excerpt) '
        'exactly on the path `fullparse and pos < len(text)` and returns the same object otherwise; every '
        'subscript of the per-index tables is guarded; entry '
        'closures are hashable memo keys.')
    rep.not_decided += ['pos=k equals parsing text[k:] with positions shifted (a relation between two runs)']
    for rid, txt in [
        ('ENTRY-signature', 'public entry points take (text, pos=0, fullparse=True)'),
        ('ENTRY-driver', 'entry points tail-call _run(ctx?, text, pos, impl, fullparse)'),
        ('ENTRY-params', 'an entry point supplies the parameters of the implementation it starts'),
        ('START-inherited', 'the module-level parse of a sub-grammar without a start of its own starts the nearest '
                            'inherited start (rule or class)'),
        ('CONV-hashable', 'entry closures are hashable'),
        ('DRIVER-exits', 'success -> _finalize_parse_info(...); failure -> error function called, raise'),
        ('DRIVER-memo-per-call', 'the memo is a fresh local dictionary of each driver call'),
        ('DRIVER-coordinates', 'the driver never rebinds the text / position / start it was given while rule functions run'),
        ('C15-dedup-identity', 'the conversion walk (visit) de-duplicates by identity only and yields every object once'),
        ('SPAN-convert', 'every instance reachable from the result has its span converted (shared with C10)'),
        ('FINALIZE-exits', 'PartialParseError(nodes, position at pos, excerpt) iff fullparse and pos < len(text); '
                           'otherwise the same value is returned'),
        ('TABLE-index', 'every subscript of the per-index tables is guarded by index < len(text)'),
        ('ERR-must-raise', 'every generated error function raises on all paths'),
        ('ERR-shape', 'error functions raise ParseError(message, pos, line, col)'),
        ('EXC-classes', 'exception constructors match the raise sites'),
        ('BYTES-safe', 'the driver and the position/message code never mix the text with a str constant on a path '
                       'where the text may be bytes'),
        ('FREE-name', 'every name the error path reads exists in the module that runs it (no NameError instead of ParseError)'),
        ('SUBIMPORT-complete', 'sub-grammars import every runtime name emitted code mentions'),
    ]:
        rep.rule(rid, txt)
    found, stats, nmods = routes.run(rep, 'C08', ['ENTRY-', 'CONV-hashable', 'ERR-must-raise', 'ERR-shape', 'FREE-name',
                                                   'SUBIMPORT-', 'START-inherited'])
    rep.floor('entry points examined', stats['entries'], 150)
    rep.floor('error functions examined', stats['error_functions'], 100)
    call_const = load.call_constant()
    n = 0
    for what, tree, rel in routes.runtime_subjects():
        fns = load.functions_of(tree)
        found = []
        bad = lambda rule, msg: found.append((rule, msg))
        name, fn, call = trampoline.find_trampoline(tree, what)
        uses_ctx = bool(fn.args.args and fn.args.args[0].arg == '_ctx')
        cc = call_const
        for x in ast.walk(fn):
            if isinstance(x, ast.Compare) and isinstance(x.left, ast.Subscript) \
                    and isinstance(x.comparators[0], ast.Constant):
                cc = x.comparators[0].value
        roles, tbad, st = trampoline.analyse(fn, cc, uses_ctx, what)
        for rule, msg in tbad:
            if rule in ('DRIVER-coordinates', 'C07-memo-local'):
                # a memo that outlives the call makes the outcome depend on earlier parses
                rep.add(Finding('DRIVER-memo-per-call' if rule == 'C07-memo-local' else rule,
                                f'{rel}:runtime', '', msg, f'{rel} ({what})'))
        n += finalize.driver_exits(fn, roles, uses_ctx, what, bad)
        n += finalize.finalize_rules(fns, what, bad)
        n += finalize.bytes_safety(fns, what, bad)
        exception_classes(tree, what, rep)
        rep.count('runtime copies analysed')
        for rule, msg in found:
            if rule in ('DRIVER-exits', 'FINALIZE-exits', 'TABLE-index', 'BYTES-safe', 'SPAN-convert', 'SPAN-convert-once'):
                rep.add(Finding(rule, f'{rel}:runtime', '', msg, f'{rel} ({what})'))
        # every successful outcome (and the partial_result of PartialParseError) passes through the walk that
        # converts the recorded spans: it reaches every object once, by identity, iteratively (no hashing or
        # comparing of nodes, which recurse through the value and can raise RecursionError)
        from .. import walkers
        vfound = []
        walkers.check_visit(fns['visit'], f'{what}:visit', lambda r, m: vfound.append((r, m)))
        for rule, msg in vfound:
            if rule in ('C15-dedup', 'C15-dedup-identity', 'C15-visit-yield', 'C15-children'):
                rep.add(Finding(rule, f'{rel}:visit', '', msg, f'{rel} ({what})'))
        rep.obligations += 3
        rep.discharged += 3 - len({r for r, _ in found if r in ('DRIVER-exits', 'FINALIZE-exits', 'TABLE-index')})
    # C.parse(args)(text, pos, fullparse): the entry closure binds text/pos/fullparse itself - a class parameter
    # of that name must be captured outside it, or the class is matched with the input / offset as its argument
    from . import shared
    shared.entry_closure_rule(rep)
    # the first slot of what a rule yields last is True or False - never a value the driver could take for the
    # request tag: register protocol of every expression class (E1 rule G3)
    from .. import e1run
    rep.rule('G3-protocol', 'every exit of every expression leaves _status True or False (never an arbitrary value that '
                            'could equal the CALL tag) and a failure exit carries an error function')
    e1run.run(rep, ['Where', 'Apply', 'Expect', 'ExpectNot', 'Opt', 'Seq', 'Choice', 'Str', 'Regex', 'Byte', 'Let', 'List',
                    'Sep', 'Discard', 'Skip', 'Longest', 'OperatorTable', 'Ref'], 'quick',
              select=lambda f: f['rule'] == 'G3-protocol')
    rep.count('finalize/driver obligations', n)
    rep.floor('runtime copies analysed', rep.instances.get('runtime copies analysed', 0), 3)
    from .. import controls
    controls.route_controls(rep)
