"""Path rules on the trampoline (`_run`): memoisation (C07), exits (C08), isolation (C18).

Objects are found by role, not by name:
  request  R  the value returned by the `.send(...)` call
  stack    S  the list whose last element supplies the generator being resumed
  key      K  the other component of that last element
  memo     M  the mapping tested for membership of R
  carry    v  the variable whose value is sent into the generator
"""
import ast

from .common import AnalysisError, Finding
from . import load
from . import paths as P


def bp_env_at(bp, step, name):
    """value of `name` just before `step` on path bp"""
    val = None
    for st in bp.steps:
        if st is step:
            break
        if st[0] == 'E' and st[1] == 'assign' and st[2] == name:
            val = st[3]
    return val


def find_trampoline(tree, what):
    fns = load.functions_of(tree)
    if 'parse' not in fns:
        raise AnalysisError(f'{what}: public parse() not found')
    ret = [n for n in ast.walk(fns['parse']) if isinstance(n, ast.Return)]
    if len(ret) != 1 or not (isinstance(ret[0].value, ast.Call) and isinstance(ret[0].value.func, ast.Name)):
        raise AnalysisError(f'{what}: parse() does not tail-call the driver')
    name = ret[0].value.func.id
    if name not in fns:
        raise AnalysisError(f'{what}: driver {name} called by parse() is not defined in the template')
    return name, fns[name], ret[0].value


class Roles:
    pass


def memo_local_rules(fn, r, body, M, what, bad):
    """memo object: created once, before the loop, a fresh dict, local, never rebound or cleared"""
    if M is not None:
        if not (isinstance(M, tuple) and M[0] == 'OBJ'):
            bad.append(('C07-memo-local', f'{what}: the memo {P.tfmt(M)} is not a local object of the driver'))
        else:
            mname = M[1]
            assigns = []
            for n in ast.walk(fn):
                if isinstance(n, ast.Assign):
                    for t in n.targets:
                        for x in ast.walk(t):
                            if isinstance(x, ast.Name) and x.id == mname and isinstance(x.ctx, ast.Store):
                                assigns.append(n)
                if isinstance(n, (ast.Global, ast.Nonlocal)) and mname in n.names:
                    bad.append(('C07-memo-local', f'{what}: memo {mname} is declared global/nonlocal'))
            if mname in [a.arg for a in fn.args.args + fn.args.kwonlyargs]:
                bad.append(('C07-memo-local', f'{what}: memo {mname} is a parameter (shared default)'))
            top = [n for n in fn.body if n in assigns]
            if len(assigns) != 1 or len(top) != 1:
                bad.append(('C07-memo-local', f'{what}: memo {mname} is assigned {len(assigns)} times; it must '
                                              f'be created exactly once per call, outside the loop'))
            else:
                a = top[0]
                fresh = (isinstance(a.value, ast.Dict) and not a.value.keys) or (
                    isinstance(a.value, ast.Call) and isinstance(a.value.func, ast.Name)
                    and a.value.func.id == 'dict' and not a.value.args and not a.value.keywords)
                if not fresh:
                    bad.append(('C07-memo-local', f'{what}: memo {mname} is not created as a fresh empty dict '
                                                  f'({ast.unparse(a.value)[:60]})'))
                if fn.body.index(a) > fn.body.index(r.loop_node):
                    bad.append(('C07-memo-local', f'{what}: memo {mname} is created after the loop'))
            for bp in body:
                for e in bp.events():
                    if e[1].startswith('call:') and e[2] == M and e[1] in (
                            'call:clear', 'call:pop', 'call:popitem', 'call:update', 'call:setdefault'):
                        bad.append(('C07-memo-local', f'{what}: memo is mutated by .{e[1][5:]}() inside the loop'))
                    if e[1] == 'del' and isinstance(e[2], tuple) and M in list(P.subterms(e[2])):
                        bad.append(('C07-memo-local', f'{what}: memo entries are deleted inside the loop'))


def is_frame(K, Gen, uses_context):
    """Gen is the generator started for the request K: K[1]([ctx,] text, K[2])"""
    if isinstance(K, tuple) and K[:1] == ('TUPLE',) and len(K) == 4:
        f, p = K[2], K[3]
    else:
        f, p = ('SUB', K, ('CONST', '1')), ('SUB', K, ('CONST', '2'))
    want = ('CALL', f) + ((('PARAM', '_ctx'),) if uses_context else ()) + (('PARAM', 'text'), p)
    return Gen == want


def active_outside(fn, r, paths, loop, body, R, G, S, v, CALLC, uses_context, what, bad):
    """The same rules for a driver that keeps the running frame in two loop-carried variables
    (key, generator) and only the suspended callers in its list.  Logical stack L = list ++ [active].
    Expected effect of one iteration on L: completion L[:-1] (and the result stored under the key of
    the finished frame, handed to the frame below), memo hit L, memo miss L ++ [(request, new
    generator)]; every frame pairs a request with the generator started for it."""
    lid = loop[3]
    gname = G[1]
    tag = ('SUB', R, ('CONST', '0'))
    # the key variable: what the completion branch stores the result under
    keys = set()
    for bp in body:
        for e in bp.events('substore'):
            if e[3] == R and isinstance(e[2], tuple) and e[2][0] == 'SUB':
                keys.add(e[2][2])
    if len(keys) != 1 or not (isinstance(next(iter(keys)), tuple) and next(iter(keys))[0] == 'PHI'):
        bad.append(('C07-memo-store', f'{what}: the finished result is not stored under one loop-carried key '
                                      f'({[P.tfmt(k) for k in keys]})'))
        K = next(iter(keys), None)
    K = next(iter(keys)) if keys else None
    kname = K[1] if isinstance(K, tuple) and K[0] == 'PHI' else None
    r.K, r.carried = K, {}
    KV, GV = ('PHI', kname, lid), ('PHI', gname, lid)
    # initial frame
    k0 = g0 = None
    for p in paths:
        for st in p.steps:
            if st[0] == 'LOOP' and st[3] == lid:
                break
            if st[0] == 'E' and st[1] == 'assign':
                if st[2] == kname:
                    k0 = st[3]
                if st[2] == gname:
                    g0 = st[3]
    r.init = ('LIST', ('TUPLE', k0, g0))
    if k0 != ('TUPLE', CALLC, ('PARAM', 'start'), ('PARAM', 'pos')):
        bad.append(('C07-memo-key', f'{what}: the initial frame is keyed {P.tfmt(k0)}; its key must be (CALL, start, pos)'))
    if k0 is None or g0 is None or not is_frame(k0, g0, uses_context):
        bad.append(('C07-memo-key', f'{what}: the initial generator {P.tfmt(g0)} is not the one started for the '
                                    f'initial key {P.tfmt(k0)}'))

    def classify(bp):
        is_req = hit = M = None
        for t in bp.tests():
            term, outcome = t[1], t[2]
            if isinstance(term, tuple) and term[0] == 'CMP' and len(term) == 4 and len(term[1]) == 1:
                op, a, b = term[1][0], term[2], term[3]
                if {a, b} == {tag, CALLC} and op in ('Eq', 'NotEq', 'Is', 'IsNot'):
                    is_req = outcome if op in ('Eq', 'Is') else not outcome
                elif op in ('In', 'NotIn') and a == R:
                    M, hit = b, (outcome if op == 'In' else not outcome)
                elif op in ('Is', 'IsNot') and ('CONST', 'None') in (a, b):
                    g = a if b == ('CONST', 'None') else b
                    if isinstance(g, tuple) and g[:1] == ('CALL',) and isinstance(g[1], tuple) \
                            and g[1][:1] == ('ATTR',) and g[1][2] == 'get' and g[2:] == (R,):
                        M, hit = g[1][1], ((not outcome) if op == 'Is' else outcome)
        return is_req, hit, M
    kinds = {'complete': [], 'hit': [], 'miss': [], 'other': []}
    memo = set()
    for bp in body:
        is_req, hit, M = classify(bp)
        if M is not None:
            memo.add(M)
        if is_req is None:
            kinds['other'].append(bp)
        elif not is_req:
            kinds['complete'].append(bp)
        elif hit is None:
            kinds['other'].append(bp)
        else:
            kinds['hit' if hit else 'miss'].append(bp)
    if kinds['other']:
        raise AnalysisError(f'{what}: a path through the driver loop is neither completion, memo hit nor memo '
                            f'miss: {kinds["other"][0].describe()[:300]}')
    if len(memo) != 1:
        raise AnalysisError(f'{what}: expected one memo table, found {sorted(map(repr, memo))}')
    M = next(iter(memo))
    r.M, r.kinds = M, kinds

    def simulate(bp):
        """-> (old entries popped, entries pushed, final key, final generator)"""
        popped, pushed = 0, []
        for st in bp.steps:
            if st[0] != 'E':
                continue
            if st[1] == 'call:pop' and st[2] == S:
                if st[3] != ():
                    raise AnalysisError(f'{what}: the stack is popped with an argument')
                if pushed:
                    pushed.pop()
                else:
                    popped += 1
            elif st[1] == 'call:append' and st[2] == S:
                pushed.append(st[3][0] if st[3] else None)
            elif st[1].startswith('call:') and st[2] == S and st[1] not in ('call:pop', 'call:append'):
                raise AnalysisError(f'{what}: the stack is changed by .{st[1][5:]}()')
        return popped, pushed, bp.env.get(kname), bp.env.get(gname)

    def gens(bp):
        out = []
        for st in bp.steps:
            for t in ([st[3]] if st[0] == 'E' else [st[1]] if st[0] == 'X' else []):
                for x in P.subterms(t):
                    if isinstance(x, tuple) and x[:1] == ('CALL',) and len(x) >= 2 and x[1] == ('SUB', R, ('CONST', '1')) \
                            and x not in out:
                        out.append(x)
        return out
    for bp in kinds['complete']:
        popped, pushed, kf, gf = simulate(bp)
        ok_store = [e for e in bp.events('substore') if e[2] == ('SUB', M, KV) and e[3] == R]
        if not ok_store:
            bad.append(('C07-memo-store', f'{what}: on the completion branch the finished result is not stored in '
                                          f'the memo under the key of the finished frame'))
        if gens(bp):
            bad.append(('C07-gen-create', f'{what}: a generator is created on the completion branch'))
        if pushed:
            bad.append(('C07-stack', f'{what}: completion branch pushes a frame'))
        leaves = bp.end and bp.end[0] in ('break', 'return')
        if leaves:
            empty = any((not t[2]) and t[1] == S for t in bp.tests())
            if not empty or popped:
                bad.append(('C07-stack', f'{what}: the driver loop is left on completion without the list of suspended '
                                         f'frames being empty'))
            continue
        # the frame below becomes the active one
        pop_terms = [st[3] for st in bp.steps if st[0] == 'E' and st[1] == 'assign'
                     and isinstance(st[3], tuple) and st[3][:1] == ('UNPACK',)
                     and st[3][1] == ('CALL', ('ATTR', S, 'pop'))]
        want_k, want_g = ('UNPACK', ('CALL', ('ATTR', S, 'pop')), 0), ('UNPACK', ('CALL', ('ATTR', S, 'pop')), 1)
        if popped != 1 or (kf, gf) != (want_k, want_g):
            bad.append(('C07-stack', f'{what}: after completion the active frame becomes ({P.tfmt(kf)}, {P.tfmt(gf)}) '
                                     f'with {popped} frame(s) popped; expected the frame popped from the list of '
                                     f'suspended callers (key, generator in the order they are pushed)'))
        if bp.env.get(v) != R:
            bad.append(('C07-replay', f'{what}: after completion the value handed to the parent is '
                                      f'{P.tfmt(bp.env.get(v))}, expected the completed result itself'))
    for bp in kinds['hit']:
        popped, pushed, kf, gf = simulate(bp)
        if popped or pushed or (kf, gf) != (KV, GV):
            bad.append(('C07-replay', f'{what}: memo hit branch changes the frames'))
        if bp.env.get(v) not in (('SUB', M, R), ('CALL', ('ATTR', M, 'get'), R)):
            bad.append(('C07-replay', f'{what}: on a memo hit the replayed value is {P.tfmt(bp.env.get(v))}, expected '
                                      f'the stored object {P.tfmt(("SUB", M, R))}'))
        if gens(bp):
            bad.append(('C07-gen-create', f'{what}: a generator is created although the request was memoised'))
        if any(e for e in bp.events('substore')):
            bad.append(('C07-replay', f'{what}: memo hit branch stores into the memo'))
    if not kinds['hit']:
        bad.append(('C07-memo-lookup', f'{what}: no memo-hit branch'))
    if not kinds['miss']:
        bad.append(('C07-gen-create', f'{what}: no branch starts a generator for an unseen request'))
    if not kinds['complete']:
        bad.append(('C07-memo-store', f'{what}: no completion branch found'))
    for bp in kinds['miss']:
        popped, pushed, kf, gf = simulate(bp)
        g = gens(bp)
        if len(g) != 1:
            bad.append(('C07-gen-create', f'{what}: memo-miss branch creates {len(g)} generators'))
            continue
        if not is_frame(R, g[0], uses_context):
            bad.append(('C07-gen-create', f'{what}: the generator for a request is started as {P.tfmt(g[0])}; expected '
                                          f'request[1]({"_ctx, " if uses_context else ""}text, request[2])'))
        if popped or pushed != [('TUPLE', KV, GV)]:
            bad.append(('C07-stack', f'{what}: memo-miss branch suspends {[P.tfmt(x) for x in pushed]}; expected exactly '
                                     f'the active frame (key, generator)'))
        if kf != R or gf not in (g[0],):
            bad.append(('C07-memo-key', f'{what}: the new active frame is ({P.tfmt(kf)}, {P.tfmt(gf)}); its key must be '
                                        f'the request tuple itself, paired with the generator started for it'))
        if bp.env.get(v) != ('CONST', 'None'):
            bad.append(('C07-gen-create', f'{what}: a freshly created generator is first sent '
                                          f'{P.tfmt(bp.env.get(v))}, expected None'))
        if any(e for e in bp.events('substore')):
            bad.append(('C07-replay', f'{what}: memo miss branch stores into the memo'))
    # the key is not changed between the send and the store: it is only assigned where a frame changes
    memo_local_rules(fn, r, body, M, what, bad)
    # the variable that holds the outcome when the loop is left (for the exit rules of C08)
    rvars = {st[2] for bp in body for st in bp.steps if st[0] == 'E' and st[1] == 'assign' and st[3] == R}
    r.final = {('PHI', x, lid) for x in rvars | {v}}
    return r, bad, {'paths': len(paths), 'loop_paths': len(body)}


def analyse(fn, call_const, uses_context, what):
    """-> (roles, findings[(rule, message)], stats)"""
    E = P.Enumerator()
    paths = E.function(fn)
    bad = []
    r = Roles()
    r.paths = paths
    CALLC = ('CONST', repr(call_const))
    # the loop containing the send
    loops = {}
    for p in paths:
        for s in p.steps:
            if s[0] == 'LOOP':
                loops[s[3]] = s
    send_loops = [l for l in loops.values()
                  if any(e[1] == 'call:send' for bp in l[2] for e in bp.events())]
    # the same loop statement reached through different paths before it is one loop
    if len({id(l[1]) for l in send_loops}) == 1 and len(send_loops) > 1:
        send_loops = send_loops[:1]
    # the driver works on the text and position it was given: rule functions record positions, the
    # finalisation converts them and the caller reads them against the caller's text
    params = [a.arg for a in fn.args.args]
    if send_loops:
        loop_end = getattr(send_loops[0][1], 'end_lineno', 10 ** 9)
        for n in ast.walk(fn):
            if isinstance(n, ast.Name) and isinstance(n.ctx, (ast.Store, ast.Del)) and n.id in params \
                    and n.lineno <= loop_end:
                bad.append(('DRIVER-coordinates', f'{what}: the driver rebinds its parameter `{n.id}` (line {n.lineno}) '
                                                  f'before it has finished running the rule functions: positions, spans '
                                                  f'and error locations then refer to a text or offset other than '
                                                  f'the caller\'s'))
    if len(send_loops) != 1:
        raise AnalysisError(f'{what}: expected exactly one loop resuming generators with .send, '
                            f'found {len(send_loops)}')
    loop = send_loops[0]
    body = loop[2]
    r.loop_node = loop[1]
    r.body = body
    # roles from the send
    sends = set()
    for bp in body:
        for st in bp.steps:
            if st[0] == 'E' and st[1] == 'assign' and isinstance(st[3], tuple) and st[3][:1] == ('CALL',) \
                    and isinstance(st[3][1], tuple) and st[3][1][:1] == ('ATTR',) and st[3][1][2] == 'send':
                sends.add(st[3])
    if len(sends) != 1:
        raise AnalysisError(f'{what}: the result of .send() is not bound by a single assignment')
    R = sends.pop()
    G = R[1][1]
    carry = R[2] if len(R) == 3 else None
    if not (isinstance(carry, tuple) and carry[:1] == ('PHI',)):
        raise AnalysisError(f'{what}: the value sent into the generator is not a loop-carried variable')
    v = carry[1]
    TOPM1 = ('UOP', 'USub', ('CONST', '1'))
    carried = {}            # variable name -> component index of the stack top it mirrors
    if isinstance(G, tuple) and G[0] == 'UNPACK' and isinstance(G[1], tuple) and G[1][0] == 'SUB' \
            and G[1][2] == TOPM1 and G[2] in (0, 1):
        S = G[1][1]
        gi = G[2]
        K = ('UNPACK', G[1], 1 - gi)
    elif isinstance(G, tuple) and G[0] == 'PHI':
        # the generator is kept in a loop-carried variable: the stack is the list popped on
        # completion; the invariant "(key, gtor) mirror the stack top" is checked below
        pops = {e[2] for bp in body for e in bp.events() if e[1] == 'call:pop' and e[3] == ()}
        if len(pops) != 1:
            raise AnalysisError(f'{what}: cannot identify the generator stack')
        S = pops.pop()
        init_entry = None
        for p in paths:
            for e in p.events('assign'):
                if ('OBJ', e[2]) == S:
                    init_entry = e[3]
        gi = 1
        if isinstance(init_entry, tuple) and init_entry[:1] == ('LIST',) and len(init_entry) == 2 \
                and isinstance(init_entry[1], tuple) and init_entry[1][0] == 'TUPLE' and len(init_entry[1]) == 3:
            gi = 1 if init_entry[1][2] in (G, ('OBJ', G[1]), ('VAR', G[1])) or True else 0
        elif init_entry in (('LIST',), ('CALL', ('VAR', 'list'))):
            # the running frame is kept in two loop-carried variables, the list holds the suspended
            # callers only: analysed by `active_outside` below (logical stack = list ++ [active frame])
            r.R, r.G, r.S, r.v = R, G, S, v
            return active_outside(fn, r, paths, loop, body, R, G, S, v, CALLC, uses_context, what, bad)
        carried[G[1]] = gi
        K = None
    else:
        raise AnalysisError(f'{what}: the generator being resumed is neither taken from the top of a stack '
                            f'nor a loop-carried variable ({P.tfmt(G)})')
    # the key: what the completion branch stores under
    if K is None or True:
        keys = set()
        for bp in body:
            for e in bp.events('substore'):
                if e[3] == R and isinstance(e[2], tuple) and e[2][0] == 'SUB':
                    keys.add(e[2][2])
        for k in keys:
            if isinstance(k, tuple) and k[0] == 'PHI':
                carried[k[1]] = 1 - gi
                if K is None:
                    K = k
        if K is None:
            K = ('UNPACK', ('SUB', S, TOPM1), 1 - gi)
    r.R, r.G, r.S, r.K, r.v = R, G, S, K, v
    r.carried = carried
    # ---- invariant for loop-carried mirrors of the stack top
    if carried:
        lid = loop[3]

        def top_component(name):
            return ('PHI', name, lid)
        # initial establishment
        init_entry = None
        init_env = None
        for p in paths:
            for st in p.steps:
                if st[0] == 'E' and st[1] == 'assign' and ('OBJ', st[2]) == S:
                    init_entry = st[3]
                if st[0] == 'LOOP' and st[3] == lid:
                    break
        for name, idx in carried.items():
            ok = isinstance(init_entry, tuple) and init_entry[:1] == ('LIST',) and len(init_entry) == 2 \
                and isinstance(init_entry[1], tuple) and init_entry[1][0] == 'TUPLE'
            if ok:
                comp = init_entry[1][1 + idx]
                before = None
                for p in paths:
                    for st in p.steps:
                        if st[0] == 'E' and st[1] == 'assign' and st[2] == name:
                            before = st[3]
                        if st[0] == 'LOOP' and st[3] == lid:
                            break
                ok = comp in (before, ('OBJ', name), ('VAR', name))
            if not ok:
                bad.append(('C07-memo-key', f'{what}: loop-carried `{name}` does not mirror the initial stack entry'))
        for bp in body:
            if bp.end and bp.end[0] not in ('continue',):
                continue
            top = {n: top_component(n) for n in carried}      # known components of the current top
            fresh = {n: True for n in carried}                # variable still mirrors the current top
            for st in bp.steps:
                if st[0] != 'E':
                    continue
                if st[1] == 'call:pop' and st[2] == S:
                    top = None
                    fresh = {n: False for n in carried}
                elif st[1] == 'call:append' and st[2] == S:
                    item = st[3][0] if st[3] else None
                    if isinstance(item, tuple) and item[0] == 'TUPLE' and len(item) == 3:
                        top = {n: item[1 + i] for n, i in carried.items()}
                        fresh = {n: bp_env_at(bp, st, n) in (top[n], ) or top[n] in (('OBJ', n), ('VAR', n))
                                 for n in carried}
                    else:
                        top = None
                        fresh = {n: False for n in carried}
                elif st[1] == 'assign' and st[2] in carried:
                    i = carried[st[2]]
                    if st[3] == ('UNPACK', ('SUB', S, TOPM1), i):
                        fresh[st[2]] = True
                    elif top is not None and st[3] == top.get(st[2]):
                        fresh[st[2]] = True
                    elif top is not None and top.get(st[2]) in (('OBJ', st[2]), ('VAR', st[2])):
                        fresh[st[2]] = True   # pushed by name after this assignment: checked at the push
                    else:
                        fresh[st[2]] = False
            emptied = any((not t[2]) and t[1] == S for t in bp.tests()
                          if bp.steps.index(t) > max([bp.steps.index(x) for x in bp.steps
                                                      if x[0] == 'E' and x[1] == 'call:pop' and x[2] == S] or [-1]))
            for n, okv in fresh.items():
                if not okv and not emptied:
                    bad.append(('C07-memo-key',
                                f'{what}: `{n}` is carried around the driver loop as a mirror of the stack top, '
                                f'but on the path [{bp.describe()[:160]}] the stack changes and `{n}` is not '
                                f'refreshed: a rule that finishes without calling another rule stores its '
                                f'result under its caller\'s key and is evaluated again on the next reference'))
    tag = ('SUB', R, ('CONST', '0'))

    def classify(bp):
        is_req = None
        memo_hit = None
        M = None
        for t in bp.tests():
            term, outcome = t[1], t[2]
            if isinstance(term, tuple) and term[0] == 'CMP' and len(term) == 4 and len(term[1]) == 1:
                op, a, b = term[1][0], term[2], term[3]
                if {a, b} == {tag, CALLC} and op in ('Eq', 'NotEq', 'Is', 'IsNot'):
                    is_req = outcome if op in ('Eq', 'Is') else not outcome
                elif op in ('In', 'NotIn') and a == R:
                    M = b
                    memo_hit = outcome if op == 'In' else not outcome
                elif op in ('Is', 'IsNot') and ('CONST', 'None') in (a, b):
                    # idiom: cached = memo.get(request); if cached is not None: ...
                    g = a if b == ('CONST', 'None') else b
                    if isinstance(g, tuple) and g[:1] == ('CALL',) and isinstance(g[1], tuple) \
                            and g[1][:1] == ('ATTR',) and g[1][2] == 'get' and g[2:] == (R,):
                        M = g[1][1]
                        memo_hit = (not outcome) if op == 'Is' else outcome
        return is_req, memo_hit, M

    def gen_creations(bp):
        out = []
        for st in bp.steps:
            terms = []
            if st[0] == 'E':
                terms.append(st[3])
            elif st[0] == 'X':
                terms.append(st[1])
            for t in terms:
                for sub in P.subterms(t):
                    if isinstance(sub, tuple) and sub[:1] == ('CALL',) and len(sub) >= 2 \
                            and sub[1] == ('SUB', R, ('CONST', '1')):
                        if sub not in out:
                            out.append(sub)
        return out

    kinds = {'complete': [], 'hit': [], 'miss': [], 'other': []}
    memo = set()
    for bp in body:
        is_req, hit, M = classify(bp)
        if M is not None:
            memo.add(M)
        if is_req is None:
            kinds['other'].append(bp)
        elif not is_req:
            kinds['complete'].append(bp)
        elif hit is None:
            kinds['other'].append(bp)
        elif hit:
            kinds['hit'].append(bp)
        else:
            kinds['miss'].append(bp)
    # a request that starts a generator on a path that never looked the request up, although other
    # paths do: the lookup is skipped under some condition, and that request is evaluated again
    skipped = [bp for bp in kinds['other'] if classify(bp)[0] and gen_creations(bp)
               and any(kinds[k] for k in ('hit', 'miss'))]
    if skipped:
        cond = ' and '.join(('' if t[2] else 'not ') + P.tfmt(t[1]) for t in skipped[0].tests()
                            if not (isinstance(t[1], tuple) and tag in P.subterms(t[1]) and CALLC in P.subterms(t[1])))
        bad.append(('C07-memo-lookup', f'{what}: a generator is started for a request without the memo having been '
                                       f'consulted when {cond or "(always)"}: a request made under that condition is '
                                       f'evaluated again although its result may be stored'))
        kinds['other'] = [bp for bp in kinds['other'] if bp not in skipped]
        kinds['miss'] += skipped
    if kinds['other']:
        ex = kinds['other'][0].describe()[:300]
        if not any(k for k in ('hit', 'miss') if kinds[k]):
            bad.append(('C07-memo-lookup', f'{what}: a request is not tested against a memo table '
                                           f'before a generator is started (path: {ex})'))
        else:
            raise AnalysisError(f'{what}: a path through the driver loop is neither completion, memo hit '
                                f'nor memo miss: {ex}')
    if len(memo) > 1:
        names = {m[1] for m in memo if isinstance(m, tuple) and len(m) > 1}
        if len(names) == 1 and any(m[0] == 'PHI' for m in memo):
            bad.append(('C07-memo-local', f'{what}: the memo {names.pop()} is rebound inside the driver loop '
                                          f'(results stored earlier in the same parse are lost)'))
            memo = {m for m in memo if m[0] == 'OBJ'} or memo
        else:
            raise AnalysisError(f'{what}: several memo tables {memo}')
    M = sorted(memo, key=repr)[0] if memo else None
    r.M = M
    r.kinds = kinds
    if not kinds['complete']:
        bad.append(('C07-memo-store', f'{what}: no completion branch (tag test against CALL={call_const!r}) found'))
    for bp in kinds['complete']:
        stores = [e for e in bp.events('substore')]
        ok = [e for e in stores if M is not None and e[2] == ('SUB', M, K) and e[3] == R]
        if M is None:
            pass
        elif not ok:
            got = '; '.join(f'{P.tfmt(e[2])} = {P.tfmt(e[3])}' for e in stores) or 'no store'
            bad.append(('C07-memo-store',
                        f'{what}: on the completion branch the finished result is not stored in the memo '
                        f'under the key that started the generator (expected {P.tfmt(M)}[key from stack top]'
                        f' = request/result; found: {got})'))
        pops = [e for e in bp.events() if e[1] == 'call:pop' and e[2] == S and e[3] == ()]
        dels = [e for e in bp.events('del') if e[2] == ('SUB', S, ('UOP', 'USub', ('CONST', '1')))]
        if not pops and not dels:
            bad.append(('C07-stack', f'{what}: completion branch does not pop the finished generator'))
        if gen_creations(bp):
            bad.append(('C07-gen-create', f'{what}: a generator is created on the completion branch'))
        if bp.env.get(v) != R:
            bad.append(('C07-replay', f'{what}: after completion the value handed to the parent is '
                                      f'{P.tfmt(bp.env.get(v))}, expected the completed result itself'))
    for bp in kinds['hit']:
        want = [('SUB', M, R), ('CALL', ('ATTR', M, 'get'), R)]
        if bp.env.get(v) not in want:
            bad.append(('C07-replay', f'{what}: on a memo hit the replayed value is {P.tfmt(bp.env.get(v))}, '
                                      f'expected the stored object {P.tfmt(want[0])}'))
        if gen_creations(bp):
            bad.append(('C07-gen-create', f'{what}: a generator is created although the request was memoised'))
        if any(e[2] in (S, M) for e in bp.events() if e[1].startswith('call:') and e[1] != 'call:send') or \
                any(e for e in bp.events('substore')):
            bad.append(('C07-replay', f'{what}: memo hit branch mutates the stack or the memo'))
    if M is not None and not kinds['hit']:
        bad.append(('C07-memo-lookup', f'{what}: no memo-hit branch'))
    if not kinds['miss']:
        bad.append(('C07-gen-create', f'{what}: no branch starts a generator for an unseen request'))
    ctxarg = (('VAR', '_ctx'),) if False else ()
    for bp in kinds['miss']:
        gens = gen_creations(bp)
        if len(gens) != 1:
            bad.append(('C07-gen-create', f'{what}: memo-miss branch creates {len(gens)} generators'))
            continue
        g = gens[0]
        args = g[2:]
        want_tail = (('PARAM', 'text'), ('SUB', R, ('CONST', '2')))
        if uses_context:
            ok = len(args) == 3 and args[1:] == want_tail and args[0] == ('PARAM', '_ctx')
        else:
            ok = args == want_tail
        if not ok:
            bad.append(('C07-gen-create', f'{what}: the generator for a request is started as {P.tfmt(g)}; '
                                          f'expected request[1]({"_ctx, " if uses_context else ""}text, request[2])'))
        pushes = [e for e in bp.events() if e[1] == 'call:append' and e[2] == S]
        if len(pushes) != 1:
            bad.append(('C07-stack', f'{what}: memo-miss branch pushes {len(pushes)} entries'))
        else:
            item = pushes[0][3][0]
            good = isinstance(item, tuple) and item[0] == 'TUPLE' and len(item) == 3
            if good:
                kpos, gpos = (1, 2) if G[2] == 1 else (2, 1)
                if item[kpos] != R:
                    good = False
                gi = item[gpos]
                if gi != g and not (isinstance(gi, tuple) and gi[0] in ('OBJ', 'VAR')):
                    good = False
            if not good:
                bad.append(('C07-memo-key', f'{what}: the stack entry pushed for a new generator is '
                                            f'{P.tfmt(item)}; its key must be the request tuple itself '
                                            f'(tag, function, position) and pair with the new generator'))
        if bp.env.get(v) != ('CONST', 'None'):
            bad.append(('C07-gen-create', f'{what}: a freshly created generator is first sent '
                                          f'{P.tfmt(bp.env.get(v))}, expected None'))
    memo_local_rules(fn, r, body, M, what, bad)
    # initial stack entry: key holds tag, start function and position
    init = None
    for p in paths:
        for e in p.events('assign'):
            if ('OBJ', e[2]) == S:
                init = e[3]
    r.init = init
    ok = False
    if isinstance(init, tuple) and init[0] == 'LIST' and len(init) == 2 and isinstance(init[1], tuple) \
            and init[1][0] == 'TUPLE' and len(init[1]) == 3:
        key0 = init[1][1 + (1 - G[2])] if False else init[1][1 if G[2] == 1 else 2]
        ok = key0 == ('TUPLE', CALLC, ('PARAM', 'start'), ('PARAM', 'pos'))
    if not ok:
        bad.append(('C07-memo-key', f'{what}: the initial stack entry is {P.tfmt(init)}; its key must be '
                                    f'(CALL, start, pos)'))
    return r, bad, {'paths': len(paths), 'loop_paths': len(body)}
