"""Positive controls: tiny synthetic snippets (not repo code) that each rule family must flag on
every run.  A silent control means the rule has gone blind -> exit 2 (never a verdict)."""
import ast
import types

from .common import AnalysisError
from . import flow as F
from . import e1
from . import paths as P


class _Cfg:
    def __init__(self, cls, children, **kw):
        self.cls, self.children, self.kwargs, self.args, self.post = cls, children, kw, [], {}
        self.ctx = False
        self.label = f'control:{cls}'

    @property
    def key(self):
        return self.label


class _Obj:
    class cls:
        name = 'Control'
        module = types.SimpleNamespace(rel='controls')

        @staticmethod
        def has(n):
            return False


def _built(cls, src, children, AS, CP, **kw):
    b = types.SimpleNamespace()
    b.cfg = _Cfg(cls, children, **kw)
    b.src, b.AS, b.CP = src, AS, CP
    b.tree = ast.parse(src)
    b.obj = _Obj()
    return b


CH = lambda **k: types.SimpleNamespace(AS=False, CP=True, kind=None, **k)

E1_CONTROLS = [
    # (what must fire, class, skeleton, children, AS, CP)
    ('G1-no-trace', 'Opt', """
(_status, _result, _pos) = __CHILD__('e', _pos)
if not _status:
    _result = None
    _status = True
""", {'e': CH()}, True, False),
    ('G2-cp-sound', 'Seq', """
while True:
    (_status, _result, _pos) = __CHILD__('c0', _pos)
    if not _status:
        break
    (_status, _result, _pos) = __CHILD__('c1', _pos)
    if not _status:
        break
    _result = [_result]
    break
""", {'c0': types.SimpleNamespace(AS=False, CP=False, kind=None), 'c1': types.SimpleNamespace(AS=False, CP=False, kind=None)},
     False, False),
    ('G2-as-sound', 'Choice', """
(_status, _result, _pos) = __CHILD__('c0', _pos)
""", {'c0': CH()}, True, False),
    ('G3-protocol', 'Fail', """
_result = 'not an error function'
_status = False
""", {}, False, True),
    ('S-choice-order', 'Choice', """
backtrack1 = _pos
(_status, _result, _pos) = __CHILD__('c0', _pos)
_pos = backtrack1
(_status, _result, _pos) = __CHILD__('c1', _pos)
""", {'c0': CH(), 'c1': CH()}, False, True),
]


def e1_controls(rep):
    for want, cls, src, children, AS, CP in E1_CONTROLS:
        b = _built(cls, src.strip() + '\n', children, AS, CP)
        try:
            an = e1.Analysis(b)
            found = {f.rule for f in e1.generic(b, an)}
            if cls in e1.SPECS and want.startswith('S-'):
                msgs = []
                e1.SPECS[cls](b, an, lambda r, m: msgs.append(r))
                found |= set(msgs)
        except Exception as e:
            rep.error(f'positive control for {want} could not be analysed: {e!r}')
            continue
        rep.count('positive controls evaluated')
        if want not in found:
            rep.error(f'positive control silent: rule {want} did not flag its synthetic violation '
                      f'(flagged: {sorted(found)})')


def trampoline_controls(rep):
    from . import trampoline
    src = '''
def _run(text, pos, start, fullparse):
    memo = {}
    result = None
    key = (3, start, pos)
    gtor = start(text, pos)
    stack = [(key, gtor)]
    while stack:
        key, gtor = stack[-1]
        result = gtor.send(result)
        if result[0] != 3:
            stack.pop()
        elif result in memo:
            result = memo[result]
        else:
            gtor = result[1](text, result[2])
            stack.append((result, gtor))
            result = None
    return result
'''
    fn = ast.parse(src).body[0]
    try:
        roles, bad, stats = trampoline.analyse(fn, 3, False, 'control')
    except AnalysisError as e:
        rep.error(f'positive control for C07-memo-store could not be analysed: {e}')
        return
    rep.count('positive controls evaluated')
    if 'C07-memo-store' not in {r for r, _ in bad}:
        rep.error('positive control silent: C07-memo-store did not flag a driver without the memo store')


def walker_controls(rep):
    from . import walkers
    src = '''
def visit(node):
    visited = set()
    stack = [node]
    while stack:
        node = stack.pop()
        if isinstance(node, (list, tuple)):
            stack.extend(node)
        elif isinstance(node, dict):
            stack.extend(reversed(node.values()))
        elif isinstance(node, ParsedObject):
            node_id = id(node)
            if node_id in visited:
                continue
            visited.add(node_id)
            yield node
            if hasattr(node, '_fields'):
                stack.extend(getattr(node, x) for x in reversed(node._fields))
'''
    fn = ast.parse(src).body[0]
    found = []
    try:
        walkers.check_visit(fn, 'control', lambda r, m: found.append(r))
    except AnalysisError as e:
        rep.error(f'positive control for C15-lifo could not be analysed: {e}')
        return
    rep.count('positive controls evaluated')
    if 'C15-lifo' not in found:
        rep.error('positive control silent: C15-lifo did not flag a push without reversed')


def sharedstate_controls(rep):
    from . import sharedstate
    src = '''
_cache = {}
def f(text):
    if text in _cache:
        return _cache[text]
    _cache[text] = len(text)
    return _cache[text]
def g(x, acc=[]):
    acc.append(x)
    return acc
'''
    found, n = sharedstate.scan(ast.parse(src), 'control')
    rules = {r for r, _, _ in found}
    rep.count('positive controls evaluated', 2)
    if 'C18-no-shared-store' not in rules:
        rep.error('positive control silent: C18-no-shared-store did not flag a module-level cache')
    if 'C18-no-cache' not in rules:
        rep.error('positive control silent: C18-no-cache did not flag a mutable default argument')
    src2 = '''
class K:
    _instance = None
    def __new__(cls):
        if cls._instance is None:
            cls._instance = object.__new__(cls)
        return cls._instance
    def touch(self):
        type(self).count = 1
        self.__class__.seen = True
        self.mine = 1
'''
    found2, _ = sharedstate.scan(ast.parse(src2), 'control')
    hits = [m for r, q, m in found2 if r == 'C18-no-shared-store']
    rep.count('positive controls evaluated', 1)
    if len(hits) != 3:
        rep.error(f'positive control: stores into a class object: expected 3 reports (cls, type(self), __class__) and '
                  f'none for self.mine, got {len(hits)}')


def affine_controls(rep):
    from . import affine as A
    x, y = A.sym('x'), A.sym('y')
    rep.count('positive controls evaluated', 2)
    # x >= y + 40  does not entail  x >= y + 42 ; it does entail x >= y + 40
    if A.entails([A.ge(x, A.add(y, A.const(40)))], A.ge(x, A.add(y, A.const(42)))):
        rep.error('positive control silent: the affine entailment accepts an invalid consequence')
    if not A.entails([A.ge(x, A.add(y, A.const(42)))], A.ge(x, A.add(y, A.const(40)))):
        rep.error('positive control: the affine entailment rejects a valid consequence')


def route_controls(rep):
    """conformance rule on a synthetic emitted module with an arity mismatch"""
    from . import routes, modroute
    src = '''
def _run(text, pos, start, fullparse):
    pass
def _parse_function_1(_text, _pos, r):
    yield (_status, _result, _pos)
def _try_T(_text, _pos, p):
    yield (_status, _result, _pos)
def _try_U(_text, _pos):
    func1 = _ParseFunction(_try_T, (_parse_function_1,), ())
    (_status, _result, _pos) = (yield (3, func1, _pos))
    yield (_status, _result, _pos)
'''
    m = modroute.Emitted('control', src, False, False, None)
    found = []
    stats = {'callsites': 0, 'entries': 0}
    try:
        routes.conformance(m, lambda r, msg: found.append(r), stats)
    except AnalysisError as e:
        rep.error(f'positive control for CONV-arity could not be analysed: {e}')
        return
    rep.count('positive controls evaluated')
    if 'CONV-arity' not in found:
        rep.error('positive control silent: CONV-arity did not flag a bare helper passed with a missing argument')
