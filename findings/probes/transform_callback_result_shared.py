"""C16 (fixed by the repo commit named in known_findings.json): transform() wrote the position metadata
of a replaced node into the very object the callback returned.  (a) A callback that returns an existing
node of the input tree whose metadata is empty (Infix/Prefix/Postfix nodes never get position metadata)
had that input node modified.  (b) One object returned for several nodes kept the position of the
first node it replaced.  Exit 1 when either shows."""
import sys
from sourcer import Grammar

g = Grammar(r'''
    start = Paren | Pair
    class Paren { open: "(" ; inner: Expr ; close: ")" }
    class Pair { open: "<" ; left: Word ; right: Word ; close: ">" }
    class Word { text: /[a-z]+/ }
    Expr = /\d+/ between { left: '+' }
    ignore /\s+/
''')
bad = 0
tree = g.parse('(1+2)')
inner = tree.inner
before = len(inner._metadata)
out = g.transform(tree, lambda n: n.inner if isinstance(n, g.Paren) else n)
print('(a) metadata entries of the input child before/after:', before, len(inner._metadata))
if len(inner._metadata) != before:
    bad += 1
if out._metadata.position_info is None or out != inner:
    print('(a) the result does not carry the position of the node it stands for'); bad += 1

tree = g.parse('<ab  cd>')
NIL = g.Infix(0, '?', 0)
out = g.transform(tree, lambda n: NIL if isinstance(n, g.Word) else n)
l, r = out.left._metadata.position_info, out.right._metadata.position_info
print('(b) positions of the two replacements:', l and l.start.index, r and r.start.index)
if not (l and r and l.start.index == 1 and r.start.index == 5):
    bad += 1
if len(NIL._metadata):
    print('(b) the object returned by the callback was modified'); bad += 1
sys.exit(1 if bad else 0)
