"""Shared plumbing: paths, outcomes, findings, known-findings, evidence, replay.

Every check is a function  run(ctx) -> None  that records *instances analysed*,
*findings* and *notes* on a Report.  Outcomes:

  exit 0  no unlisted finding
  exit 1  at least one finding not listed in known_findings.json (VIOLATION line)
  exit 2  the analysis could not decide (ANALYSIS-ERROR line): vanished anchor,
          unsupported idiom, instance floor not reached, positive control silent
"""
import hashlib
import json
import os
import re
import sys
import time

VERIF = os.path.dirname(os.path.dirname(os.path.abspath(__file__)))
REPO = os.environ.get('VERIF_REPO', '/repo')
KNOWN_FILE = os.path.join(VERIF, 'known_findings.json')


class AnalysisError(Exception):
    """The checker cannot decide (never a property verdict)."""


class Unsupported(AnalysisError):
    """Source construct outside the subset the analysis understands."""


def slug(s, n=80):
    s = re.sub(r'[^A-Za-z0-9_.=,+-]+', '_', str(s)).strip('_')
    if len(s) > n:
        s = s[:n - 9] + '_' + hashlib.sha1(s.encode()).hexdigest()[:8]
    return s


class Finding:
    def __init__(self, rule, construct, config, message, where=None, detail=None):
        self.rule = rule            # e.g. 'G2-cp-sound'
        self.construct = construct  # e.g. 'List' or 'translator._run'
        self.config = config        # canonical configuration string ('' if none)
        self.message = message      # human readable, one line
        self.where = where          # 'file:function (line N)'
        self.detail = detail or {}  # skeleton text, path, ...

    @property
    def key(self):
        k = f'{self.rule}:{self.construct}'
        if self.config:
            k += f':{self.config}'
        return k


def load_known():
    if not os.path.exists(KNOWN_FILE):
        return {'findings': [], 'fixed': []}
    with open(KNOWN_FILE) as f:
        return json.load(f)


def known_match(pid, finding, known):
    """A known-findings entry matches by property and key (exact) or by a
    key_prefix that names rule+construct and a configuration family."""
    for ent in known.get('findings', []):
        if pid not in ent.get('properties', [ent.get('property')]):
            continue
        if 'key' in ent and ent['key'] == finding.key:
            return ent
        if 'key_regex' in ent and re.fullmatch(ent['key_regex'], finding.key):
            return ent
    return None


class Report:
    def __init__(self, pid, tier, technique=''):
        self.pid = pid
        self.tier = tier
        self.t0 = time.time()
        self.findings = []
        self.notes = []
        self.instances = {}      # name -> count
        self.samples = []
        self.obligations = 0
        self.discharged = 0
        self.subjects = {}       # file -> sha1
        self.rules = []          # (rule id, text)
        self.assumptions = []
        self.not_decided = []
        self.explanation = ''
        self.floors = []         # (name, have, want)
        self.errors = []

    # -- recording
    def count(self, name, n=1):
        self.instances[name] = self.instances.get(name, 0) + n

    def oblige(self, ok=True, n=1):
        self.obligations += n
        if ok:
            self.discharged += n

    def sample(self, s):
        if len(self.samples) < 12:
            self.samples.append(s)

    def rule(self, rid, text):
        if rid not in [r for r, _ in self.rules]:
            self.rules.append((rid, text))

    def add(self, finding):
        for f in self.findings:
            if f.key == finding.key:
                return
        self.findings.append(finding)

    def note(self, text):
        if text not in self.notes:
            self.notes.append(text)

    def floor(self, name, have, want):
        self.floors.append((name, have, want))
        if have < want:
            self.errors.append(
                f'instance floor not reached: {name}: analysed {have}, expected at least {want}')

    def error(self, text):
        self.errors.append(text)

    def subject(self, path, text):
        self.subjects[path] = hashlib.sha1(text.encode()).hexdigest()[:12]

    # -- finishing
    def finish(self):
        known = load_known()
        groups = {}          # (rule, construct) -> {'viol': [...], 'known': {entry id: [...]}}
        for f in self.findings:
            g = groups.setdefault((f.rule, f.construct), {'viol': [], 'known': {}})
            ent = known_match(self.pid, f, known)
            if ent is None:
                g['viol'].append(f)
            else:
                g['known'].setdefault(ent.get('id', ent.get('key', ent.get('key_regex'))), (ent, []))[1].append(f)
        out = []
        out.append(f'== {self.pid} tier={self.tier} repo={REPO}')
        for name, n in sorted(self.instances.items()):
            out.append(f'analysed {name}: {n}')
        out.append(f'obligations: {self.obligations} discharged: {self.discharged}')
        for n in self.notes:
            out.append(f'NOTE: {n}')
        nviol = nknown = 0
        rdir = os.environ.get('VERIF_REPLAY_DIR') or os.path.join(VERIF, 'replay')
        os.makedirs(rdir, exist_ok=True)
        for (rule, construct), g in sorted(groups.items()):
            for kid, (ent, fs) in g['known'].items():
                nknown += 1
                out.append(f'KNOWN-FINDING: property={self.pid} {kid} {ent.get("what", fs[0].message)}'
                           f' [{len(fs)} instance(s), e.g. {fs[0].key}]')
            fs = g['viol']
            if not fs:
                continue
            nviol += 1
            path = os.path.join(rdir, f'{self.pid}-{slug(rule + "_" + construct)}.json')
            with open(path, 'w') as fh:
                json.dump({
                    'property': self.pid, 'rule': rule, 'construct': construct,
                    'config': fs[0].config, 'message': fs[0].message, 'where': fs[0].where,
                    'detail': fs[0].detail, 'repo': REPO,
                    'instances': [{'key': f.key, 'message': f.message} for f in fs],
                }, fh, indent=1, default=str)
            msgs = []
            for f in fs:
                if f.message not in msgs:
                    msgs.append(f.message)
            out.append(f'FINDING rule={rule} construct={construct} at {fs[0].where}: '
                       f'{len(fs)} instance(s), first: [{fs[0].config}] {fs[0].message}')
            for m in msgs[1:4]:
                out.append(f'        also: {m}')
            out.append(f'VIOLATION property={self.pid} replay={path}')
        for e in self.errors:
            out.append(f'ANALYSIS-ERROR property={self.pid} {e}')
        status = 1 if nviol else (2 if self.errors else 0)
        self.write_evidence(nviol, nknown, status)
        out.append(f'result: {"OK" if status == 0 else ("VIOLATION" if status == 1 else "ANALYSIS-ERROR")}'
                   f' ({nviol} violation group(s), {nknown} known finding(s),'
                   f' {len(self.notes)} note(s)) in {time.time() - self.t0:.1f}s')
        print('\n'.join(out))
        sys.stdout.flush()
        return status

    def write_evidence(self, nviol, nknown, status):
        total = sum(self.instances.values())
        cov = {
            'explanation': self.explanation or 'static analysis; see rules',
            'technique': 'static analysis of /repo source (ast); nothing of /repo is imported or run',
            'rules': [{'id': r, 'text': t} for r, t in self.rules],
            'instances': dict(sorted(self.instances.items())),
            'floors': [{'name': n, 'analysed': h, 'expected_at_least': w} for n, h, w in self.floors],
            'obligations': self.obligations,
            'discharged': self.discharged,
            'evaluations': total,
            'distinct_nontrivial': total,
            'rule': 'every instance listed under "instances" is a distinct rule instance '
                    '(class x configuration x convention, call site, CFG path or table row) '
                    'enumerated from the current source; none is sampled',
            'samples': self.samples or ['(none)'],
            'exhaustive': True,
            'subjects': self.subjects,
            'not_decided': self.not_decided,
            'notes': self.notes,
            'known_findings_reported': nknown,
            'analysis_errors': self.errors,
            'checker_cmd': f'./check {self.pid} --tier {self.tier}',
            'trusted_base': ['CPython ast/symtable', 'outsourcer renderer as installed',
                             'spec tables in sva/ (transcribed from README and the property text)'],
        }
        ev = {
            'property_id': self.pid,
            'tier': self.tier,
            'seed': int(os.environ.get('VERIF_SEED', '0') or 0),
            'level': 'other',
            'coverage': cov,
            'assumptions': self.assumptions,
            'wall_s': round(time.time() - self.t0, 3),
            'violations': nviol,
        }
        d = os.environ.get('VERIF_EVIDENCE_DIR') or os.path.join(VERIF, 'evidence')
        os.makedirs(d, exist_ok=True)
        with open(os.path.join(d, f'{self.pid}.json'), 'w') as f:
            json.dump(ev, f, indent=1, default=str)
