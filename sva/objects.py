def check_replace(tree, what, bad):
    pass
