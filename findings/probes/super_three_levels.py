from sourcer import Grammar
import sys, signal
signal.alarm(10)
A = Grammar('grammar probe_f6_a\nstart = X\nX = "a"')
B = Grammar('grammar probe_f6_b extends probe_f6_a\nX = super.X | "b"')
C = Grammar('grammar probe_f6_c extends probe_f6_b\nX = super.X | "c"')
print([C.parse(t) for t in 'abc'], [B.parse(t) for t in 'ab'])
