from sourcer import Grammar
A = Grammar('grammar kf_anon_a\nstart = "a"*\nignore /\\s+/')
B = Grammar('grammar kf_anon_b extends kf_anon_a\nX = "x"')
print(A.parse(' a a'))
print(B.parse(' a a'))   # AttributeError: '_Context' object has no attribute '_try__anonymous_...'
