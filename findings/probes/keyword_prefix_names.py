from sourcer import Grammar
def t(desc, text):
    try:
        g = Grammar(desc)
        print(repr(desc), '->', repr(g.parse(text)))
    except Exception as e:
        print(repr(desc), 'EXC', type(e).__name__, str(e)[:200])
t('class A { letter: "a" }\nstart = A', 'a')
t('class A { letx: "a" }\nstart = A', 'a')
t('start = Nonempty\nNonempty = "a"', 'a')
t('start = Truex\nTruex = "a"', 'a')
t('start = letter\nletter = "a"', 'a')
t('start = ignored\nignored = "a"', 'a')
t('class A { passenger: "a" }\nstart = A', 'a')
t('class A { requiresx: "a" }\nstart = A', 'a')
