#!/usr/bin/env python3
"""Regenerates MANIFEST.json from the table below (run by hand after adding a check)."""
import json, os
HERE = os.path.dirname(os.path.abspath(__file__))
CLAIMED = {
 'C01': dict(technique='partial evaluation of the generator (ast interpreter, abstract children) + explicit-state provenance dataflow over every emitted skeleton; assume/guarantee induction over expression trees',
             text='For all grammars over the listed constructs (structural induction on per-class summaries): failed attempts leave no trace in the position register, the static flags are sound, register protocol, and the PEG position/value-flow table hold for every configuration of every class in both calling conventions. Decides the structural clause, not parse results on inputs.',
             note='Assumes children obey their summaries (induction hypothesis), CPython semantics of emitted statements, outsourcer rendering. Not decided: regex engine behaviour, value equality on inputs, termination.', ref='3.1, 4 C01'),
 'C02': dict(technique='partial evaluation of OperatorTable._compile + provenance dataflow with ghost state over the emitted shunting-yard loop; finite evaluation of the emitted precedence/associativity decision formula',
             text='For every table shape x child flag state x convention: the table ends only after an operand or postfix operator, restores of the position saved before a consumed operator are terminal, no trace of failed attempts, sound flags; associativity ids of create() agree with the constants tested in the emitted loop. Structural clauses (a)-(c) only.',
             note='Not decided: that shunting-yard builds the unique precedence tree for arbitrary token sequences. Assumes operator expressions are not always-succeeding.', ref='4 C02'),
 'C03': dict(technique='partial evaluation of List/Sep._compile for every bound spelling / option combination + provenance dataflow with ghost state (bound tests, separator seen, last appended)',
             text='Upper-bound test on every path from append to next attempt; lower-bound test guards success; trailing separator consumed iff allow_trailer; allow_empty/require_separator guard success; int/str spellings of bounds handled alike; G1-G3 so an incomplete repetition leaves no trace.',
             note='Assumes min_len <= max_len for symbolic bounds. Not decided: greediness on inputs, element values.', ref='4 C03'),
 'C07': dict(technique='symbolic path enumeration of the trampoline loop with role inference (request/stack/memo) + def-use rules; leaf skeleton specs for request emission',
             text='Generators are created only initially and on a memo miss; completion stores the result under the request key from the stack top; hits replay the stored object; memo is one fresh local dict per call; CALL tag cannot be confused with a status. Checked for both conventions and the copy in sourcer/parser.py.',
             note='Trusts CPython dict/tuple hashing. Not decided: running time.', ref='4 C07'),
}
NA = {
 'C12': 'Bootstrap fixed point compares outputs of executing the generator across generations; any static surrogate is either a text comparison that fires on harmless edits or a re-execution of the generator (DESIGN.md section 6).',
}
PENDING = 'check under construction in this session; not claimed yet'
ALL = ['C%02d' % i for i in range(1, 21)]
checks = []
for pid in ALL:
    if pid in CLAIMED:
        c = CLAIMED[pid]
        checks.append({
            'property_id': pid,
            'quick_cmd': f'./check {pid} --tier quick',
            'thorough_cmd': f'./check {pid} --tier thorough',
            'evidence_file': f'/verif/evidence/{pid}.json',
            'replay_cmd_template': f'./check {pid} --replay {{path}}',
            'engine': 'sva',
            'level_claimed': {'category': 'other', 'text': c['text'], 'design_ref': c['ref']},
            'level_note': c['note'],
            'technique': c['technique'],
        })
na = [{'property_id': p, 'reason': NA.get(p, PENDING)} for p in ALL if p not in CLAIMED]
m = {
 'version': 1,
 'setup_cmd': './check --selfcheck',
 'hooks': {'guard': 'SOURCER_VERIF', 'enable': 'none needed: the checks are static and read the working tree',
           'baseline_off_cmd': 'cd /repo && /venv/bin/python -m pytest -q -p no:cacheprovider tests',
           'source_commits': [], 'add_only': True},
 'engines': [{'name': 'sva', 'path': '/verif/sva', 'serves_properties': sorted(CLAIMED),
              'kind_free_text': 'repository-specific static analysis: ast interpreter of the code generator (MetaEval), provenance dataflow over emitted skeletons, CFG/path rules over runtime templates, def/call agreement checks'}],
 'checks': checks,
 'not_applicable': na,
 'notes': 'All checks are static analysis of /repo\'s working tree (honours VERIF_REPO). Exit 2 + ANALYSIS-ERROR means the analysis could not decide (vanished anchor / unknown idiom), never a verdict.',
}
json.dump(m, open(os.path.join(HERE, 'MANIFEST.json'), 'w'), indent=1)
print('claimed', sorted(CLAIMED), 'na', [x['property_id'] for x in na])
