"""Rules on the value classes of the runtime (C14, parts shared with C16/C05):
ParsedObject.__eq__/__hash__/_asdict/_replace, _hash, _Metadata, Infix/Prefix/Postfix."""
import ast

from .common import AnalysisError
from . import load
from . import paths as P

SELF, OTHER = ('PARAM', 'self'), ('PARAM', 'other')
FIELDS = ('ATTR', SELF, '_fields')
ITEM = ('ITEM', FIELDS)


def get_class(tree, name, what):
    cs = load.classes_of(tree)
    if name not in cs:
        raise AnalysisError(f'{what}: anchor class {name} vanished')
    return cs[name]


def method(cls, name):
    for n in cls.body:
        if isinstance(n, ast.FunctionDef) and n.name == name:
            return n
    return None


def all_steps(p):
    out = []
    for s in p.steps:
        out.append(s)
        if s[0] == 'LOOP':
            for bp in s[2]:
                out += all_steps(bp)
    return out


def check_eq_hash(tree, what, bad):
    po = get_class(tree, 'ParsedObject', what)
    eq, hs = method(po, '__eq__'), method(po, '__hash__')
    if eq is None or hs is None:
        bad('C14-eq-hash', f'{what}: ParsedObject lacks __eq__ or __hash__ (equal objects would hash by identity)')
        return 0
    n = 0
    for fn in (eq, hs):
        for node in ast.walk(fn):
            if isinstance(node, ast.Attribute) and node.attr in ('_metadata',):
                bad('C14-eq-hash', f'{what}: {fn.name} reads {node.attr}: position metadata must not influence '
                                   f'equality or hashing')
            if isinstance(node, ast.Call) and isinstance(node.func, ast.Name) and node.func.id == 'id':
                bad('C14-eq-hash', f'{what}: {fn.name} uses id(): identity must not influence equality or hashing')
    # ---- __eq__
    E = P.Enumerator()
    paths = E.function(eq)
    n += len(paths)
    cls_tests = [('CALL', ('VAR', 'isinstance'), OTHER, ('ATTR', SELF, '__class__')),
                 ('CMP', ('Is',), ('CALL', ('VAR', 'type'), OTHER), ('CALL', ('VAR', 'type'), SELF)),
                 ('CMP', ('Is',), ('CALL', ('VAR', 'type'), SELF), ('CALL', ('VAR', 'type'), OTHER)),
                 ('CMP', ('Is',), ('ATTR', OTHER, '__class__'), ('ATTR', SELF, '__class__')),
                 ('CMP', ('Is',), ('ATTR', SELF, '__class__'), ('ATTR', OTHER, '__class__'))]
    L, R = ('CALL', ('VAR', 'getattr'), SELF, ITEM), ('CALL', ('VAR', 'getattr'), OTHER, ITEM)
    saw_loop = False
    for p in paths:
        if p.end[0] != 'return':
            bad('C14-eq-hash', f'{what}: __eq__ has a path that does not return a value')
            continue
        ret = p.end[1]
        tests = p.tests()
        same = any(t[2] and t[1] in (('CMP', ('Is',), SELF, OTHER), ('CMP', ('Is',), OTHER, SELF)) for t in tests) \
            or any((not t[2]) and t[1] in (('CMP', ('IsNot',), SELF, OTHER), ('CMP', ('IsNot',), OTHER, SELF))
                   for t in tests)
        cls_ok = any(t[2] and t[1] in cls_tests for t in tests)
        cls_no = any((not t[2]) and t[1] in cls_tests for t in tests)
        loops = [s for s in p.steps if s[0] == 'LOOP']
        if ret == ('CONST', 'True') and not same:
            if not cls_ok:
                bad('C14-eq-hash', f'{what}: __eq__ can return True without having tested that both objects '
                                   f'have the same class')
            if not loops:
                bad('C14-eq-hash', f'{what}: __eq__ can return True without comparing the fields')
        if ret == ('CONST', 'False') and not cls_no:
            # must come from a field comparison
            ne = [t for t in tests if t[2] and t[1] in (('CMP', ('NotEq',), L, R), ('CMP', ('NotEq',), R, L))] + \
                 [t for t in tests if (not t[2]) and t[1] in (('CMP', ('Eq',), L, R), ('CMP', ('Eq',), R, L))]
            if not ne:
                bad('C14-eq-hash', f'{what}: __eq__ returns False on a path that is neither the class test nor '
                                   f'a field comparison ({p.describe()[:200]})')
        for lp in loops:
            saw_loop = True
            it = E.val(lp[1].iter, {'self': SELF, 'other': OTHER}) if isinstance(lp[1], ast.For) else None
            if it != FIELDS:
                bad('C14-eq-hash', f'{what}: __eq__ iterates {P.tfmt(it)}, expected self._fields')
            if not cls_ok:
                bad('C14-eq-hash', f'{what}: __eq__ compares fields before the class test')
    if not saw_loop:
        bad('C14-eq-hash', f'{what}: __eq__ never compares the fields')
    # ---- __hash__
    E = P.Enumerator()
    paths = E.function(hs)
    n += len(paths)
    loops = [s for p in paths for s in p.steps if s[0] == 'LOOP']
    if not loops:
        bad('C14-eq-hash', f'{what}: __hash__ does not iterate the fields')
    for lp in loops:
        it = E.val(lp[1].iter, {'self': SELF}) if isinstance(lp[1], ast.For) else None
        if it != FIELDS:
            bad('C14-eq-hash', f'{what}: __hash__ iterates {P.tfmt(it)}; __eq__ iterates self._fields '
                               f'(equal objects must hash alike)')
        used = False
        for bp in lp[2]:
            for e in bp.events('assign'):
                for sub in P.subterms(e[3]):
                    if sub == ('CALL', ('VAR', '_hash'), ('CALL', ('VAR', 'getattr'), SELF, ITEM)):
                        used = True
                    if sub == ('CALL', ('VAR', 'hash'), ('CALL', ('VAR', 'getattr'), SELF, ITEM)):
                        bad('C14-eq-hash', f'{what}: __hash__ uses the builtin hash() on field values: fields '
                                           f'holding lists or dicts make equal objects unhashable')
                        used = True
        if not used:
            bad('C14-eq-hash', f'{what}: __hash__ does not combine _hash(getattr(self, field))')
    # ---- _hash helper
    fns = load.functions_of(tree)
    if '_hash' not in fns:
        bad('C14-eq-hash', f'{what}: helper _hash vanished')
    else:
        E = P.Enumerator()
        hp = E.function(fns['_hash'])
        n += len(hp)
        V = ('PARAM', fns['_hash'].args.args[0].arg)
        kinds = set()
        for p in hp:
            exc = [t for t in p.tests() if isinstance(t[1], tuple) and t[1][:1] == ('EXCEPT',)]
            if not exc:
                if p.end[0] == 'return' and p.end[1] == ('CALL', ('VAR', 'hash'), V):
                    kinds.add('plain')
                continue
            if exc[0][1] != ('EXCEPT', ('VAR', 'TypeError')):
                bad('C14-eq-hash', f'{what}: _hash handles {P.tfmt(exc[0][1])}, expected TypeError')
            for t in p.tests():
                it = None
                if t[2] and isinstance(t[1], tuple) and t[1][:2] == ('CALL', ('VAR', 'isinstance')) and t[1][2] == V:
                    names = {x[1] for x in P.subterms(t[1][3]) if isinstance(x, tuple) and x[:1] == ('VAR',)}
                    loops = [s for s in p.steps if s[0] == 'LOOP']
                    rec = any(sub[:2] == ('CALL', ('VAR', '_hash')) for lp in loops for bp in lp[2]
                              for e in bp.events('assign') for sub in P.subterms(e[3]) if isinstance(sub, tuple))
                    if rec:
                        kinds |= names
        for need in ('plain', 'list', 'tuple', 'dict'):
            if need not in kinds:
                bad('C14-eq-hash', f'{what}: _hash has no {"hash(value) fast path" if need == "plain" else need + " fallback recursing into the elements"}')
    return n


def check_asdict(tree, what, bad):
    po = get_class(tree, 'ParsedObject', what)
    fn = method(po, '_asdict')
    if fn is None:
        bad('C14-asdict', f'{what}: _asdict vanished')
        return
    ps = P.Enumerator().function(fn)
    ok = len(ps) == 1 and ps[0].end[0] == 'return'
    if ok:
        r = ps[0].end[1]
        ok = (isinstance(r, tuple) and r[:1] == ('DICTCOMP',) and len(r) == 4 and r[3][2] == FIELDS and len(r[3]) == 3
              and r[1] == ('ITEM', r[3][1]) and r[2] == ('CALL', ('VAR', 'getattr'), SELF, ('ITEM', r[3][1])))
        if not ok and isinstance(r, tuple) and r[0] == 'OBJ':
            # the same dictionary built by an explicit loop over self._fields
            p = ps[0]
            made = [e for e in p.events('assign') if e[2] == r[1]]
            loops = [s for s in p.steps if s[0] == 'LOOP']
            ok = (len(made) == 1 and made[0][3] in (('DICT',), ('CALL', ('VAR', 'dict'))) and len(loops) == 1
                  and isinstance(loops[0][1], ast.For) and P.Enumerator().val(loops[0][1].iter, p.env) == FIELDS
                  and len(loops[0][2]) == 1 and loops[0][2][0].end[0] == 'continue')
            if ok:
                body = [s for s in loops[0][2][0].steps if s[0] == 'E' and s[1] != 'assign']
                ok = len(body) == 1 and body[0][1] == 'substore' and body[0][2] == ('SUB', r, ITEM) \
                    and body[0][3] == ('CALL', ('VAR', 'getattr'), SELF, ITEM)
            others = [s for s in p.steps if s[0] == 'E' and s[1] != 'assign']
            ok = ok and not others
    if not ok:
        bad('C14-asdict', f'{what}: _asdict is not {{f: getattr(self, f) for f in self._fields}} '
                          f'(fields in declaration order)')


def check_replace(tree, what, bad):
    po = get_class(tree, 'ParsedObject', what)
    fn = method(po, '_replace')
    if fn is None:
        bad('C16-replace', f'{what}: ParsedObject._replace vanished')
        return
    kwname = fn.args.kwarg.arg if fn.args.kwarg else None
    if kwname is None:
        raise AnalysisError(f'{what}: _replace signature changed')
    KW = ('PARAM', kwname)
    ps = P.Enumerator().function(fn)
    for p in ps:
        steps = all_steps(p)
        for s in steps:
            if s[0] == 'E' and s[1] == 'attrstore' and s[2][1] == SELF:
                bad('C16-replace', f'{what}: _replace stores into the original object (self.{s[2][2]})')
            if s[0] == 'E' and s[1].startswith('call:') and P.contains(s[2], lambda x: x == SELF) \
                    and not P.contains(s[2], lambda x: isinstance(x, tuple) and x[:1] == ('CALL',)):
                bad('C16-replace', f'{what}: _replace mutates the original object ({P.tfmt(s[2])}.{s[1][5:]})')
        if p.end[0] == 'raise':
            continue
        if p.end[0] != 'return':
            bad('C16-replace', f'{what}: _replace has a path without return')
            continue
        new = ('CALL', ('ATTR', SELF, '__class__'), ('KW', None, KW))
        alt = ('CALL', ('CALL', ('VAR', 'type'), SELF), ('KW', None, KW))
        # the missing fields may also be collected in a dictionary of their own and spread next to kw
        r = p.end[1]
        kept_form = False
        if isinstance(r, tuple) and r[:1] == ('CALL',) and r[1] in (new[1], alt[1]) and len(r) == 4 \
                and all(isinstance(a, tuple) and a[:2] == ('KW', None) for a in r[2:]):
            spreads = [a[2] for a in r[2:]]
            others = [x for x in spreads if x != KW]
            if KW in spreads and len(others) == 1:
                k = others[0]
                if isinstance(k, tuple) and k[:1] == ('DICTCOMP',) and len(k) == 4 and k[3][2] == FIELDS \
                        and len(k[3]) == 4:
                    it = ('ITEM', k[3][1])
                    cond = k[3][3]
                    kept_form = k[1] == it and k[2] == ('CALL', ('VAR', 'getattr'), SELF, it) \
                        and cond == ('CMP', ('NotIn',), it, KW)
        if kept_form:
            res = r
            md = [s for s in steps if s[0] == 'E' and s[1] == 'call:update'
                  and s[2] == ('ATTR', res, '_metadata') and s[3] == (('ATTR', SELF, '_metadata'),)]
            if not md:
                bad('C16-replace', f'{what}: _replace does not copy the position metadata onto the new object')
            continue
        shared_md = [s_ for s_ in steps if s_[0] == 'E' and s_[1] == 'attrstore' and isinstance(s_[2], tuple)
                     and s_[2][:1] == ('ATTR',) and s_[2][2] == '_metadata']
        if shared_md:
            bad('C16-replace', f'{what}: _replace stores {P.tfmt(shared_md[0][3])[:60]} as the `_metadata` of the copy: the '
                               f'copy must own its metadata (entries copied with update), otherwise writing the position '
                               f'of one object changes the other - the original is no longer untouched')
            continue
        if p.end[1] not in (new, alt):
            bad('C16-replace', f'{what}: _replace returns {P.tfmt(p.end[1])}; the copy must be built through '
                               f'the class, self.__class__(**kw), so that it starts with fresh caches '
                               f'(a cloned __dict__ carries the cached hash of the original)')
            continue
        res = p.end[1]
        md = [s for s in steps if s[0] == 'E' and s[1] == 'call:update'
              and s[2] == ('ATTR', res, '_metadata') and s[3] == (('ATTR', SELF, '_metadata'),)]
        if not md:
            bad('C16-replace', f'{what}: _replace does not copy the position metadata onto the new object')
        fills = [s for s in steps if s[0] == 'E' and s[1] == 'substore' and s[2] == ('SUB', KW, ITEM)
                 and s[3] == ('CALL', ('VAR', 'getattr'), SELF, ITEM)]
        if not fills:
            bad('C16-replace', f'{what}: _replace does not take the fields that were not given from the original')
        # exactly the fields that were not given: the fill is decided by membership in kw and nothing else
        # (a given value - None, 0, '' included - is never replaced by the original's)
        member = (('CMP', ('NotIn',), ITEM, KW), True), (('CMP', ('In',), ITEM, KW), False)
        for lp in [s for s in p.steps if s[0] == 'LOOP']:
            for bp in lp[2]:
                stores = [s for s in bp.steps if s[0] == 'E' and s[1] == 'substore' and s[2] == ('SUB', KW, ITEM)]
                # `kw[f] = kw[f]` (the other arm of a conditional expression) changes nothing
                stores = [s for s in stores if s[3] != ('SUB', KW, ITEM)]
                fill = [s for s in stores if s[3] == ('CALL', ('VAR', 'getattr'), SELF, ITEM)]
                for s_ in stores:
                    if s_ not in fill:
                        bad('C16-replace', f'{what}: _replace overwrites a field with {P.tfmt(s_[3])[:80]}')
                absent = [t for t in bp.tests() if (t[1], t[2]) in member]
                present = [t for t in bp.tests() if (t[1], not t[2]) in member]
                others = [t for t in bp.tests() if t not in absent and t not in present]
                if fill and (not absent or others):
                    bad('C16-replace', f'{what}: _replace takes a field from the original on a path decided by '
                                       f'[{"; ".join(("" if t[2] else "not ") + P.tfmt(t[1]) for t in bp.tests())}], '
                                       f'not by `field not in kw` alone: a value that was given (None, 0, \'\' '
                                       f'included) must be kept - transform() hands over replacement children this way')
                if absent and not fill and bp.end[0] == 'continue':
                    bad('C16-replace', f'{what}: a field that was not given is not taken from the original')


def check_getattr_safety(tree, what, bad):
    """A class defining __getattr__ must not read, inside it, through `self.`, an instance attribute
    that only __init__ creates: copy/pickle create the instance without __init__ and probe it with
    getattr (unbounded recursion)."""
    n = 0
    for cls in load.classes_of(tree).values():
        ga = method(cls, '__getattr__')
        if ga is None:
            continue
        n += 1
        selfname = ga.args.args[0].arg
        class_level = {t.id for st in cls.body if isinstance(st, ast.Assign) for t in st.targets
                       if isinstance(t, ast.Name)} | {st.name for st in cls.body if isinstance(st, ast.FunctionDef)}
        for node in ast.walk(ga):
            if isinstance(node, ast.Attribute) and isinstance(node.value, ast.Name) and node.value.id == selfname \
                    and isinstance(node.ctx, ast.Load) and node.attr not in class_level \
                    and not (node.attr.startswith('__') and node.attr.endswith('__')):
                bad('C14-copy-safe', f'{what}: {cls.name}.__getattr__ reads self.{node.attr}, an attribute that only '
                                     f'__init__ creates: copy.deepcopy / pickle build the instance without '
                                     f'__init__ and probe it with getattr -> RecursionError')
    return n


COPY_HOOKS = ('__reduce__', '__reduce_ex__', '__getstate__', '__setstate__', '__copy__', '__deepcopy__',
              '__getnewargs__', '__getnewargs_ex__')


def check_copy_hooks(tree, what, bad):
    """copy.copy / copy.deepcopy / pickle of a parsed object go through the default protocol, which carries the
    whole instance state - position metadata included.  A class of the runtime that takes the protocol into its
    own hands (`__reduce__`, `__getstate__`, `__deepcopy__` ...) must carry `_metadata` itself: rebuilding the
    object from its fields alone gives an equal object without the position."""
    n = 0
    po = {c.name for c in load.classes_of(tree).values()
          if c.name == 'ParsedObject' or any(ast.unparse(b).split('.')[-1] == 'ParsedObject' for b in c.bases)}
    for cls in load.classes_of(tree).values():
        if cls.name not in po:
            continue
        n += 1
        for m in cls.body:
            if isinstance(m, ast.FunctionDef) and m.name in COPY_HOOKS:
                carries = any(isinstance(x, ast.Attribute) and x.attr in ('_metadata', '__dict__') for x in ast.walk(m)) \
                    or any(isinstance(x, ast.Call) and ast.unparse(x.func) in ('vars', 'super') for x in ast.walk(m))
                if not carries:
                    bad('C14-copy-safe', f'{what}: {cls.name}.{m.name} rebuilds the object without its `_metadata`: a '
                                         f'deepcopy / pickle round trip gives an equal object that has lost its position')
    return n


def check_node_classes(tree, what, bad):
    """Infix / Prefix / Postfix: _fields, __init__ parameters, attribute stores and __repr__ agree."""
    n = 0
    for name in ('Infix', 'Prefix', 'Postfix'):
        cls = get_class(tree, name, what)
        n += 1
        fields = None
        for st in cls.body:
            if isinstance(st, ast.Assign) and any(isinstance(t, ast.Name) and t.id == '_fields' for t in st.targets):
                try:
                    fields = list(ast.literal_eval(st.value))
                except Exception:
                    raise AnalysisError(f'{what}: {name}._fields is not a literal')
        init, rp = method(cls, '__init__'), method(cls, '__repr__')
        if fields is None or init is None or rp is None:
            raise AnalysisError(f'{what}: {name} lacks _fields/__init__/__repr__')
        params = [a.arg for a in init.args.args][1:]
        if params != fields:
            bad('C14-field-tables', f'{what}: {name}.__init__ takes {params} but _fields is {fields}: '
                                    f'_replace(**kw) and repr address different names')
        stores = {}
        base_init = False
        for node in ast.walk(init):
            if isinstance(node, ast.Call) and ast.unparse(node.func) in ('ParsedObject.__init__', 'super().__init__'):
                base_init = True
        ips = P.Enumerator().function(init)
        for ip in ips:
            for e in all_steps(ip):
                if e[0] == 'E' and e[1] == 'attrstore' and e[2][1] == SELF:
                    stores.setdefault(e[2][2], set()).add(e[3])
        for f in fields:
            if stores.get(f) != {('PARAM', f)}:
                got = sorted(P.tfmt(x) for x in stores.get(f, ()))
                bad('C14-field-tables', f'{what}: {name}.__init__ stores {got or None} in self.{f}')
        if not base_init:
            bad('C14-field-tables', f'{what}: {name}.__init__ does not initialise ParsedObject (metadata, hash cache)')
        # repr: name followed by the fields in order, each with !r
        rps = P.Enumerator().function(rp)
        ok = False
        if len(rps) == 1 and rps[0].end[0] == 'return':
            parts = P.render_parts(rps[0].end[1])
            if parts is not None:
                fm = [x for x in parts if x[0] == 'fmt']
                # literal text between the rendered fields
                segs, cur = [], ''
                for x in parts:
                    if x[0] == 'lit':
                        cur += x[1]
                    else:
                        segs.append(cur)
                        cur = ''
                segs.append(cur)
                ok = [x[1] for x in fm] == [('ATTR', SELF, f) for f in fields] and all(x[2] == 'r' for x in fm) \
                    and segs[0].strip() == name + '(' and segs[-1].strip() == ')' \
                    and all(s.strip() == ',' for s in segs[1:-1])
        if not ok:
            bad('C14-field-tables', f'{what}: {name}.__repr__ does not render {name}(<fields in _fields order, !r>): '
                                    f'eval(repr(x)) would not rebuild an equal object')
    return n


def check_metadata(tree, what, bad):
    md = get_class(tree, '_Metadata', what)
    for m in ('copy', 'update', '__len__', '__setattr__', '__getattr__'):
        if method(md, m) is None:
            bad('C14-metadata', f'{what}: _Metadata.{m} vanished')
    up = method(md, 'update')
    if up is not None:
        ps = P.Enumerator().function(up)
        o = ('PARAM', up.args.args[1].arg)
        for p in ps:
            for s in all_steps(p):
                if s[0] == 'E' and s[1].startswith('call:') and P.contains(s[2], lambda x: x == o):
                    bad('C14-metadata', f'{what}: _Metadata.update mutates its argument')
    po = get_class(tree, 'ParsedObject', what)
    init = method(po, '__init__')
    fresh = False
    if init is not None:
        for node in ast.walk(init):
            if isinstance(node, ast.Assign) and ast.unparse(node.targets[0]) == 'self._metadata' \
                    and isinstance(node.value, ast.Call) and ast.unparse(node.value.func) == '_Metadata':
                fresh = True
    if not fresh:
        bad('C14-metadata', f'{what}: ParsedObject.__init__ does not give every object its own _Metadata()')
    # a freshly constructed object has *empty* metadata: transform() decides "the replacement has no
    # metadata of its own" by the truth value of _metadata (its __len__), and _finalize by the
    # truth value of position_info
    if init is not None:
        for node in ast.walk(init):
            if isinstance(node, ast.Call) and ast.unparse(node.func) == '_Metadata' and (node.args or node.keywords):
                bad('C16-metadata', f'{what}: ParsedObject.__init__ creates the metadata with initial entries '
                                    f'({ast.unparse(node)}): `not obj._metadata` is then false for every new object, '
                                    f'so transform() never hands the position of a replaced node to its replacement')
            if isinstance(node, (ast.Assign, ast.AugAssign)):
                tgt = node.targets[0] if isinstance(node, ast.Assign) else node.target
                if isinstance(tgt, (ast.Attribute, ast.Subscript)) and '_metadata' in ast.unparse(tgt.value):
                    bad('C16-metadata', f'{what}: ParsedObject.__init__ stores an entry into the new metadata '
                                        f'({ast.unparse(tgt)}): a new object no longer has empty metadata')
    minit = method(md, '__init__')
    if minit is not None:
        kw = minit.args.kwarg.arg if minit.args.kwarg else None
        for node in ast.walk(minit):
            seeded = (isinstance(node, ast.Dict) and any(k is not None for k in node.keys)) or (
                isinstance(node, ast.Call) and ast.unparse(node.func) in ('dict', 'fields.update', f'{kw}.update')
                and node.keywords and any(k.arg is not None for k in node.keywords)) or (
                isinstance(node, ast.Subscript) and isinstance(node.ctx, ast.Store) and isinstance(node.slice, ast.Constant))
            if seeded:
                bad('C16-metadata', f'{what}: _Metadata.__init__ seeds entries of its own ({ast.unparse(node)[:60]}): '
                                    f'metadata created without arguments is no longer empty')
        if minit.args.defaults or any(d is not None for d in minit.args.kw_defaults):
            bad('C16-metadata', f'{what}: _Metadata.__init__ has defaulted entries: metadata created without '
                                f'arguments is no longer empty')
