"""C03 - bounded repetition and separated lists."""
from .. import e1run
from . import shared

CLASSES = ['List', 'Sep']
FLOORS = {'List': 200, 'Sep': 216}


def run(rep, tier):
    rep.explanation = (
        'List._compile and Sep._compile are partially evaluated for every spelling of the bounds '
        '(None, 0, "0", 1, "1", 2, "2", symbolic name) resp. all 12 option combinations the '
        'constructor accepts, x child flag states x both conventions. On each emitted loop the '
        'provenance analysis (with ghost state for "appended since the upper-bound test", '
        '"lower-bound test passed", "separator seen", "last appended") decides: the upper-bound '
        'test lies on every path from an append to the next element attempt; the lower-bound '
        'test guards every success exit; a trailing separator is consumed iff allow_trailer; '
        'allow_empty / require_separator guard the success exit; kept separators are popped iff no '
        'trailer is allowed; G1-G3 (a repetition that cannot be completed leaves no trace for what '
        'is tried next, given sound flags). Sibling rule: every comparison of min_len/max_len with '
        'a literal treats the int and str spellings alike. Translator: {a,b} -> List(min_len, '
        'max_len) by def-use.')
    rep.not_decided += ['greediness as an input-level statement', 'values of elements']
    rep.assumptions += ['min_len <= max_len when both are symbolic (well-formedness)',
                        'children obey their summaries (induction hypothesis)']
    shared.describe_rules(rep)
    total = e1run.run(rep, CLASSES, tier, select=lambda f: f['rule'] not in ('S-span', 'S-binder'))
    for K, want in FLOORS.items():
        rep.floor(f'configurations of {K}', total.get(K, 0), want)
    # "a list that cannot be completed has no effect on where the next alternative starts": List/Sep do not
    # rewind themselves on failure - the enclosing choice does. The configurations of Choice/Longest/Opt with an
    # alternative that can fail after consuming (what an incomplete list is) are part of this property.
    rep.rule('G1-no-trace', 'Choice / Longest / Opt: after an alternative that failed having consumed input (an incomplete '
                            'repetition), the next alternative - and the continuation - start where the choice started')
    tc = e1run.run(rep, ['Choice', 'Longest', 'Opt'], tier,
                   select=lambda f: f['rule'] in ('G1-no-trace', 'S-flow') and 'CP' in str(f.get('config', '')))
    rep.floor('configurations of Choice', tc.get('Choice', 0), 100)
    from .. import mapping
    mapping.bound_spellings(rep)
    mapping.repeat_mapping(rep)
    mapping.bound_atomicity(rep)
    mapping.spelling_pairs(rep)
    from .. import controls
    controls.e1_controls(rep)
