"""C03, outside the level the check decides (assumption min_len <= max_len, MANIFEST level_note).  The library
rejects literal bounds with min > max when the grammar is compiled ("Expected min_len to be less than max_len"),
i.e. min <= max is a well-formedness condition.  With data-dependent bounds the condition cannot be checked at
compile time: when it is violated at run time the repetition stops at the upper bound, its final `len >= min`
test is false, and nothing resets the status left by the last element - it "succeeds" with that element as its
value.  Reported by three seeding sub-agents; recorded here, not claimed.  Exit 1 while this is so."""
import sys
from sourcer import Grammar
g = Grammar(r'start = (let n = /\d/ |> `int` in "x"{2,n}) | /\dx*/')
r = g.parse('1x')
print('let n = 1 in "x"{2,n} on 1x ->', repr(r), '(a failing repetition would give \'1x\' from the second alternative)')
sys.exit(0 if r == '1x' else 1)
