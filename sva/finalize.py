"""Rules on _finalize_parse_info, _extract_excerpt, _map_index_to_line_and_column,
_get_line_and_column and the driver's exits (C08, C09, C10)."""
import ast

from .common import AnalysisError
from . import load
from . import paths as P
from . import affine as A

TEXT, POS, COL = ('PARAM', 'text'), ('PARAM', 'pos'), ('PARAM', 'col')
LEN_TEXT = ('CALL', ('VAR', 'len'), TEXT)
MAPCALL = ('CALL', ('VAR', '_map_index_to_line_and_column'), TEXT)


# ------------------------------------------------------------------ affine conversion
class NotAffine(Exception):
    pass


def to_affine(t, symbols):
    """term -> affine form; `symbols` maps opaque terms to symbol names"""
    if t in symbols:
        return A.sym(symbols[t])
    if isinstance(t, tuple):
        if t[:1] == ('CONST',):
            try:
                v = ast.literal_eval(t[1])
            except Exception:
                raise NotAffine(t)
            if isinstance(v, bool) or not isinstance(v, int):
                raise NotAffine(t)
            return A.const(v)
        if t[:1] == ('OP',):
            op, l, r = t[1], t[2], t[3]
            if op == 'Add':
                return A.add(to_affine(l, symbols), to_affine(r, symbols))
            if op == 'Sub':
                return A.sub(to_affine(l, symbols), to_affine(r, symbols))
            if op == 'Mult':
                la, ra = to_affine(l, symbols), to_affine(r, symbols)
                if all(s == 1 for s in la):
                    return A.scale(ra, la.get(1, 0))
                if all(s == 1 for s in ra):
                    return A.scale(la, ra.get(1, 0))
        if t[:1] == ('UOP',) and t[1] == 'USub':
            return A.scale(to_affine(t[2], symbols), -1)
    raise NotAffine(t)


def test_to_constraints(term, outcome, symbols):
    """branch decision -> list of constraint forms (>= 0), or None if not affine"""
    if not (isinstance(term, tuple) and term[:1] == ('CMP',) and len(term) == 4 and len(term[1]) == 1):
        return None
    op = term[1][0]
    try:
        l, r = to_affine(term[2], symbols), to_affine(term[3], symbols)
    except NotAffine:
        return None
    if not outcome:
        op = {'Lt': 'GtE', 'LtE': 'Gt', 'Gt': 'LtE', 'GtE': 'Lt', 'Eq': 'NotEq', 'NotEq': 'Eq'}.get(op)
    if op == 'Lt':
        return [A.gt(r, l)]
    if op == 'LtE':
        return [A.ge(r, l)]
    if op == 'Gt':
        return [A.gt(l, r)]
    if op == 'GtE':
        return [A.ge(l, r)]
    if op == 'Eq':
        return [A.ge(l, r), A.ge(r, l)]
    return None


def flatten_add(t):
    """the pieces a string is put together from, whichever way it is written (+, %, f-string,
    .format): constants and the terms rendered between them"""
    if isinstance(t, tuple) and t[:2] == ('OP', 'Add'):
        return flatten_add(t[2]) + flatten_add(t[3])
    if isinstance(t, tuple) and (t[:1] == ('FSTR',) or t[:2] == ('OP', 'Mod') or (
            t[:1] == ('CALL',) and isinstance(t[1], tuple) and t[1][:1] == ('ATTR',) and t[1][2] == 'format')):
        rp = P.render_parts(t)
        if rp is not None:
            out = []
            for part in rp:
                if part[0] == 'lit':
                    if part[1]:
                        out.append(('CONST', repr(part[1])))
                elif part[2] == 'r':
                    out.append(('CALL', ('VAR', 'repr'), part[1]))
                elif isinstance(part[1], tuple) and part[1][:1] == ('CONST',) and part[1][1] in ("''", '""'):
                    pass
                else:
                    out += flatten_add(part[1])
            return out
    return [t]


STRIPPERS = {'strip', 'lstrip', 'rstrip', 'replace', 'expandtabs', 'translate', 'lower', 'upper',
             'ljust', 'rjust', 'center', 'title', 'casefold', 'removeprefix', 'removesuffix'}


def excerpt_rules(fns, what, bad):
    """C09 a.  Preconditions (from the property): col >= 1, start = pos-(col-1) >= 0 is the line start,
    pos < end <= len(text) where end is the next line break after pos or the end of the text."""
    fn = fns.get('_extract_excerpt')
    if fn is None:
        raise AnalysisError(f'{what}: anchor _extract_excerpt vanished')
    params = [a.arg for a in fn.args.args]
    if params != ['text', 'pos', 'col']:
        raise AnalysisError(f'{what}: _extract_excerpt signature changed to {params}')
    paths = P.Enumerator().function(fn)
    nob = 0
    text_paths = [p for p in paths if any((not t[2]) and t[1] == ('CALL', ('VAR', 'isinstance'), TEXT, ('VAR', 'bytes'))
                                          for t in p.tests())]
    if not text_paths:
        raise AnalysisError(f'{what}: _extract_excerpt: no text branch (isinstance(text, bytes) split) found')
    for p in text_paths:
        if p.end[0] != 'return':
            bad('EXCERPT-bounds', f'{what}: _extract_excerpt has a text path that does not return')
            continue
        # the end-of-line term: whatever `end` (or an equivalent) holds; identified as the IFEXP over a
        # search for '\n'
        end_terms = [e[3] for e in p.events('assign') if isinstance(e[3], tuple) and e[3][:1] == ('IFEXP',)
                     and 'search' in repr(e[3]) and "'\\\\n'" in repr(e[3])]
        end_is_len = False
        if not end_terms:
            # the conditional was taken apart into two paths: end = len(text) when the search found
            # nothing, end = match.start() otherwise
            searches = [x for e in p.events('assign') for x in P.subterms(e[3]) if isinstance(x, tuple)
                        and x[:1] == ('CALL',) and isinstance(x[1], tuple) and x[1][:1] == ('ATTR',)
                        and x[1][2] == 'search' and "'\\\\n'" in repr(x)]
            for S in searches:
                none_tests = [t for t in p.tests() if t[1] in (('CMP', ('Is',), S, ('CONST', 'None')),
                                                               ('CMP', ('IsNot',), S, ('CONST', 'None')))]
                for t in none_tests:
                    is_none = t[2] if t[1][1] == ('Is',) else (not t[2])
                    if is_none and any(e[3] == LEN_TEXT for e in p.events('assign')):
                        end_terms, end_is_len = [LEN_TEXT], True
                    elif not is_none:
                        st_ = ('CALL', ('ATTR', S, 'start'))
                        if any(e[3] == st_ for e in p.events('assign')):
                            end_terms = [st_]
        if len(end_terms) != 1:
            raise AnalysisError(f'{what}: _extract_excerpt: cannot identify the end-of-line computation')
        END = end_terms[0]
        # the search must start at pos or pos + 1 (then end > pos given text[pos] is no line break)
        pool = [END] + [e[3] for e in p.events('assign')]
        ok_search = any(x[:1] == ('CALL',) and isinstance(x[1], tuple) and x[1][:1] == ('ATTR',) and x[1][2] == 'search'
                        and x[2:] in ((TEXT, ('OP', 'Add', POS, ('CONST', '1'))), (TEXT, POS))
                        for t_ in pool for x in P.subterms(t_) if isinstance(x, tuple))
        if not ok_search:
            bad('EXCERPT-bounds', f'{what}: the end of the line is not searched from pos (or pos+1): '
                                  f'{P.tfmt(END)[:120]}')
            continue
        symbols = {POS: 'pos', COL: 'col', LEN_TEXT: 'n', END: 'end'}
        if end_is_len:
            symbols = {POS: 'pos', COL: 'col', LEN_TEXT: 'end'}
        start = A.sub(A.sym('pos'), A.sub(A.sym('col'), A.const(1)))
        hyps = [A.ge(A.sym('col'), A.const(1)), A.ge(start, A.const(0)),
                A.gt(A.sym('end'), A.sym('pos')), A.ge(A.sym('n'), A.sym('end'))]
        conds = []
        for t in p.tests():
            cs = test_to_constraints(t[1], t[2], symbols)
            if cs is not None:
                hyps += cs
                conds.append(('' if t[2] else 'not ') + P.tfmt(t[1], 80).replace(P.tfmt(END, 400), 'end'))
        parts = flatten_add(p.end[1])
        slice_i = None
        for i, part in enumerate(parts):
            for sub in P.subterms(part):
                if isinstance(sub, tuple) and sub[:2] == ('SUB', TEXT) and isinstance(sub[2], tuple) \
                        and sub[2][:1] == ('SLICE',):
                    slice_i = i
        if slice_i is None:
            raise AnalysisError(f'{what}: _extract_excerpt: a return has no slice of the text: {P.tfmt(p.end[1])[:120]}')
        sl = parts[slice_i]
        regime = ' and '.join(conds) or 'always'
        if not (isinstance(sl, tuple) and sl[:2] == ('SUB', TEXT)):
            # a transformation of the slice
            if isinstance(sl, tuple) and sl[:1] == ('CALL',) and isinstance(sl[1], tuple) and sl[1][:1] == ('ATTR',) \
                    and sl[1][2] in STRIPPERS:
                bad('EXCERPT-caret', f'{what}: in the regime [{regime}] the excerpt is passed through '
                                     f'.{sl[1][2]}(): its length before the error position can change while '
                                     f'the caret offset is computed from the untrimmed window, so the caret no '
                                     f'longer stands under text[pos]')
                continue
            raise AnalysisError(f'{what}: _extract_excerpt: unknown transformation of the excerpt slice: '
                                f'{P.tfmt(sl)[:120]}')
        a_t, b_t = sl[2][1], sl[2][2]
        prefix = ''
        okparts = True
        for part in parts[:slice_i]:
            if isinstance(part, tuple) and part[:1] == ('CONST',) and isinstance(ast.literal_eval(part[1]), str):
                prefix += ast.literal_eval(part[1])
            else:
                okparts = False
        caret = [part for part in parts[slice_i + 1:] if isinstance(part, tuple)
                 and part[:2] == ('CALL', ('VAR', '_caret_at'))]
        for part in parts[:slice_i] + parts[slice_i + 1:]:
            if isinstance(part, tuple) and part[:1] == ('CONST',) and '\n' in str(ast.literal_eval(part[1])):
                bad('EXCERPT-bounds', f'{what}: a constant part of the excerpt contains a line break')
        if not okparts or len(caret) != 1 or parts[-1] is not caret[0]:
            raise AnalysisError(f'{what}: _extract_excerpt: return is not prefix + slice + suffix + caret: '
                                f'{P.tfmt(p.end[1])[:160]}')
        try:
            a = to_affine(a_t, symbols) if a_t != ('CONST', 'None') else A.const(0)
            b = to_affine(b_t, symbols)
            k = to_affine(caret[0][2], symbols)
        except NotAffine as e:
            raise AnalysisError(f'{what}: _extract_excerpt: non-affine bound {P.tfmt(e.args[0])[:80]}')
        goals = [
            ('the excerpt starts at or after the line start', A.ge(a, start), 'EXCERPT-bounds'),
            ('the excerpt contains text[pos] (lower side)', A.ge(A.sym('pos'), a), 'EXCERPT-bounds'),
            ('the excerpt contains text[pos] (upper side)', A.gt(b, A.sym('pos')), 'EXCERPT-bounds'),
            ('the excerpt ends at or before the line break', A.ge(A.sym('end'), b), 'EXCERPT-bounds'),
        ]
        for label, g, rule in goals:
            nob += 1
            if not A.entails(hyps, g):
                bad(rule, f'{what}: in the regime [{regime}] of _extract_excerpt, slice '
                          f'text[{P.tfmt(a_t).replace(P.tfmt(END, 400), "end")} : {P.tfmt(b_t).replace(P.tfmt(END, 400), "end")}]: cannot show that {label} '
                          f'(needs {A.show(g)} >= 0)')
        nob += 1
        want = A.add(A.sub(A.sym('pos'), a), A.const(len(prefix)))
        if not A.entails_eq(hyps, k, want):
            bad('EXCERPT-caret', f'{what}: in the regime [{regime}] the caret offset is '
                                 f'{P.tfmt(caret[0][2])}, expected (pos - slice start) + {len(prefix)} = '
                                 f'{A.show(want)}: the caret does not stand under text[pos]')
    # _caret_at
    cf = fns.get('_caret_at')
    if cf is None:
        raise AnalysisError(f'{what}: anchor _caret_at vanished')
    cp = P.Enumerator().function(cf)
    I = ('PARAM', cf.args.args[0].arg)
    want = ('OP', 'Add', ('OP', 'Add', ('CONST', "'\\n'"), ('OP', 'Mult', ('CONST', "' '"), I)), ('CONST', "'^'"))
    nob += 1
    if len(cp) != 1 or cp[0].end[0] != 'return' or flatten_add(cp[0].end[1]) != flatten_add(want):
        bad('EXCERPT-caret', f'{what}: _caret_at(index) is not "\\n" + " " * index + "^"')
    return nob, len(text_paths)


POSITION_FUNCTIONS = ('_map_index_to_line_and_column', '_get_line_and_column', '_extract_excerpt',
                      '_finalize_parse_info', '_caret_at')
# methods that have their own idea of what a line or a column is
DISALLOWED_LINE_METHODS = {
    'splitlines': 'str.splitlines() also breaks lines at \\r, \\v, \\f, \\x1c-\\x1e, \\x85, \\u2028 and \\u2029',
    'expandtabs': 'str.expandtabs() changes the number of characters before a position',
}


def linebreak_vocabulary(fns, what, bad):
    """The library's one notion of a line: only a line feed starts a new line and every other
    character (tab, carriage return, form feed ...) advances the column by one.  The position code
    may therefore single out no character but '\\n', and may not delegate to library routines with a
    different notion.  -> number of findings reported"""
    n = 0
    for name in POSITION_FUNCTIONS:
        fn = fns.get(name)
        if fn is None:
            continue
        for node in ast.walk(fn):
            if isinstance(node, ast.Call) and isinstance(node.func, ast.Attribute) \
                    and node.func.attr in DISALLOWED_LINE_METHODS:
                n += 1
                bad('LINECOL-map', f'{what}: {name} calls .{node.func.attr}(): '
                                   f'{DISALLOWED_LINE_METHODS[node.func.attr]}; line and column are defined by '
                                   f'line feeds only (column = 1 + offset from the last line feed)')
            if isinstance(node, ast.Compare):
                for c in [node.left] + list(node.comparators):
                    if isinstance(c, ast.Constant) and isinstance(c.value, (str, bytes)) and len(c.value) == 1 \
                            and c.value not in ('\n', b'\n') and (c.value.isspace() if isinstance(c.value, str)
                                                                 else c.value.isspace()):
                        n += 1
                        bad('LINECOL-map', f'{what}: {name} singles out the character {c.value!r}: only a line feed '
                                           f'may influence line and column (every other character counts one column)')
    return n


STR_ONLY_METHODS = {'count', 'find', 'rfind', 'index', 'rindex', 'split', 'rsplit', 'partition', 'rpartition',
                    'startswith', 'endswith', 'replace', 'strip', 'lstrip', 'rstrip', 'join', 'splitlines',
                    'removeprefix', 'removesuffix'}


def bytes_safety(fns, what, bad):
    """The text may be `str` or `bytes`.  On every path of the driver and of the functions that build
    positions and messages, an operation that mixes the text (or a slice of it) with a `str`
    constant - a method call with a str argument, `'x' in text`, concatenation, %-formatting - is
    only reached after a test that the text is not bytes: otherwise bytes input ends in TypeError
    instead of ParseError / PartialParseError.  (Comparing an element with a str constant is
    harmless.)  -> number of sites examined"""
    n = 0
    for name in POSITION_FUNCTIONS + ('_run',):
        fn = fns.get(name)
        if fn is None or not fn.args.args:
            continue
        tparam = next((a.arg for a in fn.args.args if a.arg in ('text', '_text')), None)
        if tparam is None:
            continue
        T = ('PARAM', tparam)

        def texty(t):
            return t == T or (isinstance(t, tuple) and t[:1] == ('SUB',) and t[1] == T
                              and isinstance(t[2], tuple) and t[2][:1] == ('SLICE',))

        def is_strc(t):
            if isinstance(t, tuple) and t[:1] == ('CONST',):
                try:
                    return isinstance(ast.literal_eval(t[1]), str)
                except Exception:
                    return False
            return False
        for p in P.Enumerator().function(fn):
            guarded = False
            steps = list(p.steps)
            for s in steps:
                if s[0] == 'T':
                    t = s[1]
                    if isinstance(t, tuple) and t[:2] == ('CALL', ('VAR', 'isinstance')) and len(t) == 4 and t[2] == T:
                        ty = ast.unparse(ast.parse(P.tfmt(t[3]), mode='eval')) if False else P.tfmt(t[3])
                        if ('bytes' in ty and not s[2]) or (ty == 'str' and s[2]):
                            guarded = True
                terms = [s[3]] if s[0] == 'E' and isinstance(s[3], tuple) else [s[1]] if s[0] in ('X', 'T', 'Y') else []
                if p.end and s is steps[-1] and len(p.end) > 1 and isinstance(p.end[1], tuple):
                    terms.append(p.end[1])
                for term in terms:
                    for x in P.subterms(term):
                        if not isinstance(x, tuple):
                            continue
                        mixed = None
                        if x[:1] == ('CALL',) and isinstance(x[1], tuple) and x[1][:1] == ('ATTR',) and texty(x[1][1]) \
                                and x[1][2] in STR_ONLY_METHODS and any(is_strc(a) for a in x[2:]):
                            mixed = f'{tparam}.{x[1][2]}(<str>)'
                        elif x[:1] == ('CMP',) and x[1] in (('In',), ('NotIn',)) and is_strc(x[2]) and texty(x[3]):
                            mixed = f'<str> in {tparam}'
                        elif x[:2] in (('OP', 'Add'),) and ((texty(x[2]) and is_strc(x[3])) or (is_strc(x[2]) and texty(x[3]))):
                            mixed = f'{tparam} + <str>'
                        if mixed:
                            n += 1
                            if not guarded:
                                bad('BYTES-safe', f'{what}: {name} evaluates {mixed} ({P.tfmt(x)[:70]}) on a path that '
                                                  f'has not established that the text is not bytes: for bytes input '
                                                  f'this raises TypeError where ParseError / PartialParseError is due')
            if p.end and len(p.end) > 1 and isinstance(p.end[1], tuple) and not steps:
                pass
    return n


def linecol_rules(fns, what, bad):
    """C09 b: the per-index tables: from (1, 0); a line break stores (line+1, 0), any other character
    stores (line, col+1); one entry per character in each table; the line table is returned first."""
    # the tables are a function of the text of this call: the functions that compute or serve them read no
    # container that outlives the call and are not wrapped by a caching decorator (whatever the key - an
    # id(), a length, a hash - another text can be served the tables of an earlier one)
    for fname in ('_map_index_to_line_and_column', '_get_line_and_column'):
        fn = fns.get(fname)
        if fn is None:
            continue
        local = {a.arg for a in fn.args.args} | {n.id for n in ast.walk(fn) if isinstance(n, ast.Name)
                                                 and isinstance(n.ctx, ast.Store)}
        shared = sorted({n.id for n in ast.walk(fn) if isinstance(n, ast.Name) and n.id in P.MODULE_STORES
                         and n.id not in local})
        deco = [ast.unparse(d) for d in fn.decorator_list]
        if shared or deco:
            bad('TABLE-per-call', f'{what}: {fname} ' + (f'reads/writes the module-level container(s) {shared}' if shared
                                                         else f'is wrapped by @{deco[0]}') +
                ': the line/column tables served for a text may be those computed for an earlier text '
                '(they must be computed from the text of the call)')
            return 1
    nv = linebreak_vocabulary(fns, what, bad)
    mp = fns.get('_map_index_to_line_and_column')
    if mp is not None and not nv:
        bulk = [n for n in ast.walk(mp) if isinstance(n, ast.Call) and isinstance(n.func, ast.Attribute)
                and n.func.attr in ('extend', 'insert', '__iadd__')] + \
               [n for n in ast.walk(mp) if isinstance(n, ast.AugAssign)
                and isinstance(n.value, (ast.List, ast.BinOp, ast.ListComp))]
        if bulk:
            raise AnalysisError(f'{what}: _map_index_to_line_and_column fills its tables in bulk '
                                f'(`{ast.unparse(bulk[0])[:60]}`) instead of one entry per character '
                                f'(representation not covered)')
    # each recognised way of writing the map is tried with a finding list of its own: findings count
    # only for the shape that was actually recognised
    first = None
    for shape in (_linecol_shape_rules, _linecol_shape_rules_last_newline):
        mine = []
        try:
            n = shape(fns, what, lambda r, m: mine.append((r, m)))
        except AnalysisError as e:
            first = first or e
            continue
        for r, m in mine:
            bad(r, m)
        return n
    if nv:
        return nv               # the vocabulary rule already decided; the unknown shape is its consequence
    raise first


def _linecol_shape_rules_last_newline(fns, what, bad):
    """The same map written with the index of the most recent line feed instead of a column counter:
        L = 1; N = -1
        for i, c in enumerate(text):  if c == '\\n': L = L + 1; N = i
                                      lines.append(L); columns.append(i - N)
    Equivalent to the counter form by the invariant column = i - N (N = -1 before the first line
    feed gives 1 + offset; at a line feed N = i gives 0)."""
    fn = fns['_map_index_to_line_and_column']
    T = ('PARAM', fn.args.args[0].arg)
    paths = P.Enumerator().function(fn)
    if len(paths) != 1 or paths[0].end[0] != 'return':
        raise AnalysisError(f'{what}: _map_index_to_line_and_column: unexpected shape')
    p = paths[0]
    loops = [s for s in p.steps if s[0] == 'LOOP']
    if len(loops) != 1 or not isinstance(loops[0][1], ast.For):
        raise AnalysisError(f'{what}: _map_index_to_line_and_column: expected one for loop')
    lp = loops[0]
    lid = lp[3]
    it = P.Enumerator().val(lp[1].iter, {fn.args.args[0].arg: T})
    if it != ('CALL', ('VAR', 'enumerate'), T):
        raise AnalysisError(f'{what}: _map_index_to_line_and_column: not a loop over enumerate(text)')
    IDX, C = ('UNPACK', ('ITEM', it), 0), ('UNPACK', ('ITEM', it), 1)
    ret = p.end[1]
    if not (isinstance(ret, tuple) and ret[0] == 'TUPLE' and len(ret) == 3):
        raise AnalysisError(f'{what}: _map_index_to_line_and_column does not return two tables')
    LT, CT = ret[1], ret[2]
    NL = ('CONST', "'\\n'")
    EQ = (('CMP', ('Eq',), C, NL), ('CMP', ('Eq',), NL, C))
    NE = (('CMP', ('NotEq',), C, NL), ('CMP', ('NotEq',), NL, C))
    inits = {e[2]: e[3] for e in p.events('assign')}
    nob = 0
    seen = set()
    lname = nname = None
    for bp in lp[2]:
        nl = [t[2] if t[1] in EQ else (not t[2]) for t in bp.tests() if t[1] in EQ + NE]
        if len(nl) != 1:
            raise AnalysisError(f'{what}: _map_index_to_line_and_column: loop path without the line-break test')
        apps = {}
        for e in bp.events():
            if e[1] == 'call:append':
                apps.setdefault(e[2], []).append(e[3][0])
        for tbl in (LT, CT):
            nob += 1
            if len(apps.get(tbl, [])) != 1:
                bad('LINECOL-map', f'{what}: a character appends {len(apps.get(tbl, []))} entries to '
                                   f'{P.tfmt(tbl)} (tables must have exactly one entry per character)')
                return nob
        line_t, col_t = apps[LT][0], apps[CT][0]
        seen.add(nl[0])
        if nl[0]:
            # line + 1, column 0 (written i - i)
            ok = isinstance(line_t, tuple) and line_t[:2] == ('OP', 'Add') and line_t[3] == ('CONST', '1') \
                and isinstance(line_t[2], tuple) and line_t[2][0] == 'PHI' \
                and col_t in (('CONST', '0'), ('OP', 'Sub', IDX, IDX))
            if ok:
                lname = line_t[2][1]
                nname = next((k for k, v in bp.env.items() if v == IDX and k not in (
                    lp[1].target.elts[0].id if isinstance(lp[1].target, ast.Tuple) else None,)), None)
        else:
            ok = isinstance(line_t, tuple) and line_t[0] == 'PHI' and isinstance(col_t, tuple) \
                and col_t[:3] == ('OP', 'Sub', IDX) and isinstance(col_t[3], tuple) and col_t[3][0] == 'PHI'
            if ok:
                lname = lname or line_t[1]
                if nname and col_t[3][1] != nname:
                    ok = False
                nname = nname or col_t[3][1]
                if bp.env.get(lname) != ('PHI', lname, lid) or bp.env.get(nname) != ('PHI', nname, lid):
                    ok = False
        nob += 2
        if not ok:
            bad('LINECOL-map', f'{what}: after a {"line break" if nl[0] else "character"} the map stores '
                               f'({P.tfmt(line_t)}, {P.tfmt(col_t)})')
            return nob
    if seen != {True, False}:
        raise AnalysisError(f'{what}: cannot find both cases (line break / other character)')
    nob += 2
    if inits.get(lname) != ('CONST', '1') or inits.get(nname) not in (('UOP', 'USub', ('CONST', '1')), ('CONST', '-1')):
        bad('LINECOL-map', f'{what}: the map starts from line={P.tfmt(inits.get(lname))}, last line feed at '
                           f'{P.tfmt(inits.get(nname))}; expected (1, -1)')
    for bp in lp[2]:
        nl = [t[2] if t[1] in EQ else (not t[2]) for t in bp.tests() if t[1] in EQ + NE][0]
        if nl and (bp.env.get(nname) != IDX or bp.env.get(lname) != ('OP', 'Add', ('PHI', lname, lid), ('CONST', '1'))):
            bad('LINECOL-map', f'{what}: after a line break the carried state is ({P.tfmt(bp.env.get(lname))}, '
                               f'{P.tfmt(bp.env.get(nname))})')
    if P.Enumerator().val(lp[1].iter, {fn.args.args[0].arg: T}) != ('CALL', ('VAR', 'enumerate'), T):
        bad('LINECOL-map', f'{what}: the position tables are not built from every character of the text')
    return nob


def _linecol_shape_rules(fns, what, bad):
    fn = fns.get('_map_index_to_line_and_column')
    if fn is None:
        raise AnalysisError(f'{what}: anchor _map_index_to_line_and_column vanished')
    T = ('PARAM', fn.args.args[0].arg)
    paths = P.Enumerator().function(fn)
    if len(paths) != 1 or paths[0].end[0] != 'return':
        raise AnalysisError(f'{what}: _map_index_to_line_and_column: unexpected shape')
    p = paths[0]
    loops = [s for s in p.steps if s[0] == 'LOOP']
    if len(loops) != 1 or not isinstance(loops[0][1], ast.For):
        raise AnalysisError(f'{what}: _map_index_to_line_and_column: expected one for loop')
    lp = loops[0]
    lid = lp[3]
    if P.Enumerator().val(lp[1].iter, {fn.args.args[0].arg: T}) != T:
        bad('LINECOL-map', f'{what}: the position tables are not built from every character of the text '
                           f'(loop over {ast.unparse(lp[1].iter)})')
    ret = p.end[1]
    if not (isinstance(ret, tuple) and ret[0] == 'TUPLE' and len(ret) == 3):
        raise AnalysisError(f'{what}: _map_index_to_line_and_column does not return two tables')
    LT, CT = ret[1], ret[2]
    inits = {e[2]: e[3] for e in p.events('assign')}
    C = ('ITEM', T)
    NL = ('CONST', "'\\n'")
    nob = 0
    kinds = {}
    EQ = (('CMP', ('Eq',), C, NL), ('CMP', ('Eq',), NL, C))
    NE = (('CMP', ('NotEq',), C, NL), ('CMP', ('NotEq',), NL, C))

    def is_newline(bp):
        nl = [t[2] if t[1] in EQ else (not t[2]) for t in bp.tests() if t[1] in EQ + NE]
        return nl
    for bp in lp[2]:
        nl = is_newline(bp)
        if len(nl) != 1:
            raise AnalysisError(f'{what}: _map_index_to_line_and_column: loop path without the line-break test')
        apps = {}
        for e in bp.events():
            if e[1] == 'call:append':
                apps.setdefault(e[2], []).append(e[3][0])
        kinds[nl[0]] = apps
        for tbl in (LT, CT):
            nob += 1
            if len(apps.get(tbl, [])) != 1:
                bad('LINECOL-map', f'{what}: a character appends {len(apps.get(tbl, []))} entries to '
                                   f'{P.tfmt(tbl)} (tables must have exactly one entry per character)')
    # identify the carried line / column variables from the non-newline path
    try:
        other = kinds[False]
        newl = kinds[True]
        line_v = other[LT][0]
        col_new = other[CT][0]
    except (KeyError, IndexError):
        bad('LINECOL-map', f'{what}: cannot find both cases (line break / other character)')
        return nob
    ok = isinstance(line_v, tuple) and line_v[0] == 'PHI' \
        and isinstance(col_new, tuple) and col_new[:2] == ('OP', 'Add') and col_new[3] == ('CONST', '1') \
        and isinstance(col_new[2], tuple) and col_new[2][0] == 'PHI'
    nob += 4
    if not ok:
        bad('LINECOL-map', f'{what}: an ordinary character stores line={P.tfmt(line_v)}, column={P.tfmt(col_new)}; '
                           f'expected (line, column + 1)')
        return nob
    lname, cname = line_v[1], col_new[2][1]
    if newl.get(LT, [None])[0] != ('OP', 'Add', ('PHI', lname, lid), ('CONST', '1')) \
            or newl.get(CT, [None])[0] != ('CONST', '0'):
        bad('LINECOL-map', f'{what}: a line break stores line={P.tfmt(newl.get(LT, [None])[0])}, '
                           f'column={P.tfmt(newl.get(CT, [None])[0])}; expected (line + 1, 0)')
    if inits.get(lname) != ('CONST', '1') or inits.get(cname) != ('CONST', '0'):
        bad('LINECOL-map', f'{what}: counting starts from line={P.tfmt(inits.get(lname))}, '
                           f'column={P.tfmt(inits.get(cname))}; expected (1, 0)')
    # carried state is updated consistently
    for outcome, apps in kinds.items():
        for bp in lp[2]:
            if is_newline(bp) != [outcome]:
                continue
            want_line = ('OP', 'Add', ('PHI', lname, lid), ('CONST', '1')) if outcome else ('PHI', lname, lid)
            want_col = ('CONST', '0') if outcome else ('OP', 'Add', ('PHI', cname, lid), ('CONST', '1'))
            if bp.env.get(lname) != want_line or bp.env.get(cname) != want_col:
                bad('LINECOL-map', f'{what}: after a {"line break" if outcome else "character"} the counters are '
                                   f'({P.tfmt(bp.env.get(lname))}, {P.tfmt(bp.env.get(cname))})')
    return nob


def below_fact(term, outcome):
    """(a, b) when the test `term` with this outcome establishes a < b; else None"""
    if not (isinstance(term, tuple) and term[0] == 'CMP' and len(term[1]) == 1 and len(term) == 4):
        return None
    op, a, b = term[1][0], term[2], term[3]
    if (op, outcome) == ('Lt', True) or (op, outcome) == ('GtE', False):
        return (a, b)
    if (op, outcome) == ('Gt', True) or (op, outcome) == ('LtE', False):
        return (b, a)
    return None


def not_below_fact(term, outcome):
    """(a, b) when the test establishes a >= b"""
    return below_fact(term, not outcome)


def norm_len(t, tvals):
    """lemma (LINECOL rules): the position tables have one entry per element of the text, so
    len(table) is len(text)"""
    if isinstance(t, tuple) and t[:2] == ('CALL', ('VAR', 'len')) and len(t) == 3 and t[2] in tvals:
        return LEN_TEXT
    return t


PAIR_TABLES = (('CALL', ('VAR', 'list'), ('CALL', ('VAR', 'zip'), ('STAR', MAPCALL))),
               ('CALL', ('VAR', 'tuple'), ('CALL', ('VAR', 'zip'), ('STAR', MAPCALL))))
T_LINE, T_COL = ('UNPACK', MAPCALL, 0), ('UNPACK', MAPCALL, 1)


def norm_pair_tables(t):
    """the two per-index tables kept as one list of (line, column) pairs - list(zip(*map(text))) - are
    read back as the two tables: pairs[i] unpacked / splatted is (lines[i], columns[i])"""
    if not isinstance(t, tuple):
        return t
    if t in PAIR_TABLES:
        return t
    t = tuple(norm_pair_tables(x) for x in t)
    if t[:1] == ('UNPACK',) and isinstance(t[1], tuple) and t[1][:1] == ('SUB',) and t[1][1] in PAIR_TABLES \
            and t[2] in (0, 1):
        return ('SUB', (T_LINE, T_COL)[t[2]], t[1][2])
    if t[:1] == ('SUB',) and isinstance(t[1], tuple) and t[1][:1] == ('SUB',) and t[1][1] in PAIR_TABLES \
            and t[2] in (('CONST', '0'), ('CONST', '1')):
        return ('SUB', (T_LINE, T_COL)[int(t[2][1])], t[1][2])
    if t[:1] == ('CALL',):
        if t[1] == ('VAR', 'len') and len(t) == 3 and t[2] in PAIR_TABLES:
            return ('CALL', ('VAR', 'len'), T_LINE)
        out = []
        for a in t[2:]:
            if isinstance(a, tuple) and a[:1] == ('STAR',) and isinstance(a[1], tuple) and a[1][:1] == ('SUB',) \
                    and a[1][1] in PAIR_TABLES:
                out += [('SUB', T_LINE, a[1][2]), ('SUB', T_COL, a[1][2])]
            else:
                out.append(a)
        return t[:2] + tuple(out)
    return t


def uses_pair_table(paths):
    return any(P.contains(s[3] if s[0] == 'E' else s[1] if s[0] in ('T', 'X', 'Y') else None,
                          lambda x: x in PAIR_TABLES)
               for p in paths for s in p.steps if s[0] in ('E', 'T', 'X', 'Y'))


def table_terms(fn_paths):
    """terms that denote the per-index tables inside a function: results of the map call"""
    out = {}
    for p in fn_paths:
        for e in p.events('assign'):
            v = e[3]
            if isinstance(v, tuple) and v[0] == 'UNPACK' and isinstance(v[1], tuple) \
                    and v[1][:2] == ('CALL', ('VAR', '_map_index_to_line_and_column')):
                out[e[2]] = v
    return out


def finalize_rules(fns, what, bad):
    """C08 b/c, C10 b/c on _finalize_parse_info (and its local helper) and _get_line_and_column."""
    fn = fns.get('_finalize_parse_info')
    if fn is None:
        raise AnalysisError(f'{what}: anchor _finalize_parse_info vanished')
    params = [a.arg for a in fn.args.args]
    if params != ['text', 'nodes', 'pos', 'fullparse']:
        raise AnalysisError(f'{what}: _finalize_parse_info signature changed to {params}')
    NODES, FULL = ('PARAM', 'nodes'), ('PARAM', 'fullparse')
    E = P.Enumerator()
    paths = E.function(fn)
    nob = 0
    pair_form = uses_pair_table(paths)
    if pair_form:
        paths = [P.map_path(p, norm_pair_tables) for p in paths]
    tables = table_terms(paths)
    if pair_form and not tables:
        tables = {'<lines>': T_LINE, '<columns>': T_COL}
    # the tables cover the whole text
    for name, t in tables.items():
        nob += 1
        if t[1] != MAPCALL:
            bad('TABLE-whole-text', f'{what}: the position table {name} is built from {P.tfmt(t[1])}, not from the '
                                    f'whole text: spans recorded during lookahead may end after `pos`, and every '
                                    f'index up to len(text) must be convertible')
    if len(tables) < 2:
        # tables taken from a store that outlives the call (a module-level cache) are not a function of
        # this call's text: whatever the key, another text can be served the tables of an earlier one
        local = {a.arg for a in fn.args.args} | {n.id for n in ast.walk(fn) if isinstance(n, ast.Name)
                                                 and isinstance(n.ctx, ast.Store)}
        for p in paths:
            for e in p.events('assign'):
                v = e[3]
                src = v[1] if isinstance(v, tuple) and v[0] == 'UNPACK' else v
                if isinstance(src, tuple) and src[0] == 'SUB' and isinstance(src[1], tuple) and src[1][0] == 'VAR' \
                        and src[1][1] not in local:
                    bad('TABLE-per-call', f'{what}: _finalize_parse_info takes its position tables from the '
                                            f'module-level store `{src[1][1]}` ({P.tfmt(src)[:60]}) instead of computing '
                                            f'them from the text of this call: a later text can be given the lines '
                                            f'and columns of an earlier one')
                    return nob + 1
        raise AnalysisError(f'{what}: _finalize_parse_info does not unpack the two position tables')
    tvals = set(tables.values())
    # a conversion loop over a local generator (which walks and filters lazily) is not a shape these rules read
    local_gens = {n.name for n in fn.body if isinstance(n, ast.FunctionDef)
                  and any(isinstance(x, (ast.Yield, ast.YieldFrom)) for x in ast.walk(n))}
    for lpn in ast.walk(fn):
        if isinstance(lpn, ast.For) and isinstance(lpn.iter, ast.Call) and isinstance(lpn.iter.func, ast.Name) \
                and lpn.iter.func.id in local_gens:
            raise AnalysisError(f'{what}: _finalize_parse_info iterates the local generator {lpn.iter.func.id}() '
                                f'(representation not covered)')
    # exits
    saw_raise = saw_ret = False
    for p in paths:
        tests = [(t[1], t[2]) for t in p.tests()]
        cond_full = [o for t, o in tests if t == FULL]
        below = [(a, norm_len(b, tvals)) for a, b in (below_fact(t, o) for t, o in tests if below_fact(t, o))]
        notbelow = [(a, norm_len(b, tvals)) for a, b in (not_below_fact(t, o) for t, o in tests
                                                         if not_below_fact(t, o))]
        if set(below) & set(notbelow):
            continue                    # infeasible: the same comparison decided both ways
        partial = cond_full == [True] and (POS, LEN_TEXT) in below
        nob += 1
        # the value leaves - returned or inside the exception - only after the conversion walk: the
        # partial_result of PartialParseError is "that same value", positions included
        if p.end[0] in ('raise', 'return'):
            walked = False
            for st in p.steps:
                if st[0] == 'LOOP' and isinstance(st[1], ast.For) and E.val(
                        st[1].iter, {a: ('PARAM', a) for a in params}) == ('CALL', ('VAR', 'visit'), NODES):
                    walked = True
            leaves = p.end[1] == NODES or (isinstance(p.end[1], tuple) and NODES in P.subterms(p.end[1]))
            if leaves and not walked:
                bad('FINALIZE-exits', f'{what}: the value leaves _finalize_parse_info '
                                      f'({"inside the exception" if p.end[0] == "raise" else "returned"}) on a path that '
                                      f'has not run the conversion walk over visit(nodes): its objects still carry raw '
                                      f'(start, end) spans instead of positions')
        if p.end[0] == 'raise':
            saw_raise = True
            exc = p.end[1]
            if not partial:
                bad('FINALIZE-exits', f'{what}: _finalize_parse_info raises on a path that is not '
                                      f'`fullparse and pos < len(text)` ({p.describe()[-160:]})')
            if not (isinstance(exc, tuple) and exc[:2] == ('CALL', ('VAR', 'PartialParseError')) and len(exc) == 5):
                bad('FINALIZE-exits', f'{what}: raises {P.tfmt(exc)[:100]}; expected '
                                      f'PartialParseError(nodes, position, excerpt)')
                continue
            if exc[2] != NODES:
                bad('FINALIZE-exits', f'{what}: PartialParseError.partial_result is {P.tfmt(exc[2])[:80]}, '
                                      f'expected the very value that would have been returned')
            posn = exc[3]
            if not (isinstance(posn, tuple) and posn[:2] == ('CALL', ('VAR', '_Position')) and posn[2] == POS):
                bad('FINALIZE-exits', f'{what}: PartialParseError.last_position is {P.tfmt(posn)[:100]}; its index '
                                      f'must be the position where the match ended')
            else:
                lc = [a for a in posn[3:]]
                ok = len(lc) == 2 and all(isinstance(x, tuple) and x[0] == 'SUB' and x[2] == POS and x[1] in tvals
                                          for x in lc) and lc[0][1][2] == 0 and lc[1][1][2] == 1
                if not ok:
                    bad('FINALIZE-exits', f'{what}: last_position line/column are {[P.tfmt(x)[:60] for x in lc]}; '
                                          f'expected the table entries at pos')
        elif p.end[0] == 'return':
            saw_ret = True
            if partial:
                bad('FINALIZE-exits', f'{what}: with fullparse and input remaining the value is returned instead of '
                                      f'raising PartialParseError')
            if p.end[1] != NODES:
                bad('FINALIZE-exits', f'{what}: returns {P.tfmt(p.end[1])[:80]}, expected the parsed value itself')
        # unguarded table subscripts on the main path
        for st in p.steps:
            terms = [st[3]] if st[0] == 'E' else [st[1]] if st[0] in ('X', 'T') else []
            for t in terms:
                for sub in P.subterms(t):
                    if isinstance(sub, tuple) and sub[0] == 'SUB' and sub[1] in tvals:
                        idx = sub[2]
                        nob += 1
                        guarded = idx == POS and partial
                        if not guarded:
                            bad('TABLE-index', f'{what}: _finalize_parse_info subscripts a position table with '
                                               f'{P.tfmt(idx)[:60]} without a guard that the index is below '
                                               f'len(text) (a span may start or end at the end of the input)')
    if not saw_raise or not saw_ret:
        bad('FINALIZE-exits', f'{what}: _finalize_parse_info lacks the raise or the return exit')
    # conversion loop: every instance yielded by visit(nodes)
    loops = [s for p in paths for s in p.steps if s[0] == 'LOOP']
    if not loops:
        bad('SPAN-convert', f'{what}: _finalize_parse_info has no conversion loop')
        return nob
    lp = loops[0]
    it = E.val(lp[1].iter, {a: ('PARAM', a) for a in params}) if isinstance(lp[1], ast.For) else None
    nob += 1
    if it != ('CALL', ('VAR', 'visit'), NODES):
        bad('SPAN-convert', f'{what}: spans are converted for `{ast.unparse(lp[1].iter)}`; every instance '
                            f'reachable from the result - visit(nodes) - must be converted, in every module '
                            f'that shares this runtime')
    NODE = ('ITEM', it)
    helpers = {n.name: n for n in fn.body if isinstance(n, ast.FunctionDef)}
    INFO = ('ATTR', ('ATTR', NODE, '_metadata'), 'position_info')
    START, ENDX = ('UNPACK', INFO, 0), ('UNPACK', INFO, 1)
    incl = [('OP', 'Sub', ENDX, ('CONST', '1')),
            ('CALL', ('VAR', 'max'), START, ('OP', 'Sub', ENDX, ('CONST', '1'))),
            ('CALL', ('VAR', 'max'), ('OP', 'Sub', ENDX, ('CONST', '1')), START)]
    converted = False
    for bp in lp[2]:
        stores = [e for e in bp.events('attrstore') if e[2] == INFO]
        has = [t for t in bp.tests() if t[1] == INFO]
        done_tests = [t for t in bp.tests() if isinstance(t[1], tuple) and t[1][:3] == (
            'CALL', ('VAR', 'isinstance'), INFO) and t[1][3:] == (('VAR', '_PositionInfo'),)]
        already = any(t[2] for t in done_tests)
        if not stores:
            if has and has[0][2] and not already:
                bad('SPAN-convert', f'{what}: an instance with a recorded span is not converted')
            continue
        converted = True
        if not any(not t[2] for t in done_tests):
            bad('SPAN-convert-once', f'{what}: spans are converted without testing that they are still raw: an '
                                     f'object that a nested parse (started from inline Python on the same module) '
                                     f'already finalised is converted a second time (TypeError: _Position - int)')
        nob += 3
        val = stores[0][3]
        ok = isinstance(val, tuple) and val[:2] == ('CALL', ('VAR', '_PositionInfo')) and len(val) == 4
        if not ok:
            bad('SPAN-convert', f'{what}: position_info becomes {P.tfmt(val)[:100]}, expected _PositionInfo(start, end)')
            continue
        args = {}
        for i, a in enumerate(val[2:]):
            if isinstance(a, tuple) and a[:1] == ('KW',):
                args[a[1]] = a[2]
            else:
                args[['start', 'end'][i]] = a
        for which, raw_ok in (('start', [START]), ('end', incl)):
            a = args.get(which)
            idx = None
            if isinstance(a, tuple) and a[:1] == ('CALL',) and isinstance(a[1], tuple) and a[1][:1] == ('LOCALDEF',):
                idx = a[2] if len(a) == 3 else None
                h = helpers.get(a[1][1])
                if h is None or idx is None:
                    raise AnalysisError(f'{what}: position helper {a[1]} not understood')
                check_position_helper(h, tables, what, bad, paths[0].env)
            elif isinstance(a, tuple) and a[:2] == ('CALL', ('VAR', '_Position')) and len(a) == 5:
                idx = a[2]
                for j, x in enumerate(a[3:]):
                    if not (isinstance(x, tuple) and x[0] == 'SUB' and x[2] == idx and x[1] in tvals and x[1][2] == j):
                        bad('SPAN-convert', f'{what}: {which} position mixes indices/tables: {P.tfmt(a)[:100]}')
                bad('TABLE-index', f'{what}: the {which} of a span is looked up in the position tables without a '
                                   f'guard (an instance may begin or end at the end of the input)')
            else:
                bad('SPAN-convert', f'{what}: {which} of a span becomes {P.tfmt(a)[:100]}')
                continue
            if idx not in raw_ok:
                bad('SPAN-convert', f'{what}: the {which} of a span is converted from index {P.tfmt(idx)[:90]}; '
                                    f'expected {"the recorded start" if which == "start" else "the recorded end made inclusive (end - 1)"}')
    if not converted:
        bad('SPAN-convert', f'{what}: no path converts a recorded span')
    # _get_line_and_column: same tables, same index
    g = fns.get('_get_line_and_column')
    if g is None:
        raise AnalysisError(f'{what}: anchor _get_line_and_column vanished')
    gp = P.Enumerator().function(g)
    gparams = [a.arg for a in g.args.args]
    nob += 1
    if gparams != ['text', 'pos']:
        raise AnalysisError(f'{what}: _get_line_and_column signature changed to {gparams}')
    want = ('TUPLE', ('SUB', ('UNPACK', MAPCALL, 0), POS), ('SUB', ('UNPACK', MAPCALL, 1), POS))

    def spread(t):
        # tuple(f(x) for x in <the two tables>)  is  (f(lines), f(columns))
        if isinstance(t, tuple) and t[:2] == ('CALL', ('VAR', 'tuple')) and len(t) == 3 and isinstance(t[2], tuple) \
                and t[2][:1] == ('COMP',) and len(t[2]) == 4 and len(t[2][3]) == 3 and t[2][3][2] == MAPCALL:
            name = t[2][3][1].strip()
            from .walkers import substitute
            return ('TUPLE',) + tuple(substitute(t[2][2], {('ITEM', name): ('UNPACK', MAPCALL, j)}) for j in (0, 1))
        return t
    for p in gp:
        if p.end[0] != 'return':
            continue
        if spread(p.end[1]) != want:
            uses_map = any(x == MAPCALL for s in p.steps for t in ([s[3]] if s[0] == 'E' else [])
                           if t is not None for x in P.subterms(t)) or any(x == MAPCALL for x in P.subterms(p.end[1]))
            bad('LINECOL-map', f'{what}: _get_line_and_column returns {P.tfmt(p.end[1])[:120]}'
                               + ('' if uses_map else ' and does not consult _map_index_to_line_and_column at all')
                               + '; ParseError must read line and column from the same per-index tables of the '
                                 'whole text that PartialParseError and the spans use (entries at pos, line first)')
    return nob


def check_position_helper(h, tables, what, bad, closure=None):
    """local helper index -> _Position: guarded lookup, None/None at or beyond the end; analysed with
    the enclosing function's bindings (the tables and anything computed from them)"""
    I = ('PARAM', h.args.args[0].arg)
    own = {a.arg for a in h.args.args}
    env = {k: v for k, v in (closure or {}).items() if k not in own}
    for k in tables:
        env.setdefault(k, tables[k])
    ps = P.Enumerator().function(h, params=env)
    if uses_pair_table(ps) or any(P.contains(v, lambda x: x in PAIR_TABLES) for v in env.values()):
        ps = [P.map_path(p, norm_pair_tables) for p in ps]
    tvals = set(tables.values())
    for p in ps:
        if p.end[0] != 'return':
            bad('TABLE-index', f'{what}: position helper {h.name} has a path without return')
            continue
        r = p.end[1]
        if not (isinstance(r, tuple) and r[:2] == ('CALL', ('VAR', '_Position')) and len(r) == 5 and r[2] == I):
            bad('SPAN-convert', f'{what}: {h.name} returns {P.tfmt(r)[:90]}; expected _Position(index, line, column)')
            continue
        subs = [x for x in r[3:] if isinstance(x, tuple) and x[0] == 'SUB']
        facts = [below_fact(t[1], t[2]) for t in p.tests()]
        guard = [f for f in facts if f and f[0] == I and norm_len(f[1], tvals) == LEN_TEXT]
        if subs:
            if not guard:
                bad('TABLE-index', f'{what}: {h.name} subscripts a position table without the guard index < len(table)')
            for j, x in enumerate(r[3:]):
                ok = isinstance(x, tuple) and x[0] == 'SUB' and x[2] == I and x[1] in tvals and x[1][2] == j
                if not ok:
                    bad('SPAN-convert', f'{what}: {h.name} builds a position from {P.tfmt(x)[:70]} '
                                        f'(slot {j}: expected the {"line" if j == 0 else "column"} table at the same index)')
        else:
            if r[3:] != (('CONST', 'None'), ('CONST', 'None')):
                bad('SPAN-convert', f'{what}: {h.name} returns {P.tfmt(r)[:90]} beyond the end of the input')


def driver_exits(fn, roles, uses_context, what, bad):
    """C08 b: after the loop the driver returns through _finalize_parse_info(text, value, end, fullparse)
    when the status is true, and otherwise *calls* the error function left in the result register
    with (text, failure position)."""
    v = roles.v
    names = {t[1] for t in (getattr(roles, 'final', None) or ())} | {v}
    n = 0
    for p in roles.paths:
        # the loop statement carries an identifier of its own on every path that reaches it
        lid = None
        for s in p.steps:
            if s[0] == 'LOOP' and s[1] is roles.loop_node:
                lid = s[3]
        finals = {('PHI', x, lid) for x in names}
        dec, V = [], None
        for cand in finals:
            d = [t for t in p.tests() if t[1] == ('SUB', cand, ('CONST', '0'))]
            if d:
                dec, V = d, cand
        if len(dec) != 1:
            raise AnalysisError(f'{what}: the driver does not decide on the status after the loop')
        n += 1
        if dec[0][2]:
            want = ('CALL', ('VAR', '_finalize_parse_info'), TEXT, ('SUB', V, ('CONST', '1')),
                    ('SUB', V, ('CONST', '2')), ('PARAM', 'fullparse'))
            if p.end[0] != 'return' or p.end[1] != want:
                bad('DRIVER-exits', f'{what}: on success the driver ends with {p.end[0]} '
                                    f'{P.tfmt(p.end[1])[:120] if len(p.end) > 1 else ""}; expected '
                                    f'return _finalize_parse_info(text, value, end position, fullparse)')
        else:
            errcall = ('CALL', ('SUB', V, ('CONST', '1')), TEXT, ('SUB', V, ('CONST', '2')))
            called = any(errcall in list(P.subterms(s[3] if s[0] == 'E' else s[1]))
                         for s in p.steps if s[0] in ('E', 'X') and (s[3] if s[0] == 'E' else s[1]) is not None)
            if not called:
                bad('DRIVER-exits', f'{what}: on failure the driver does not call the error function from the '
                                    f'result register with (text, failure position)')
            if p.end[0] != 'raise':
                bad('DRIVER-exits', f'{what}: on failure the driver ends with {p.end[0]} instead of raising')
    return n
