"""C20 - user-chosen names vs. generated code: namespace separation."""
import ast
import builtins

from ..common import Finding, AnalysisError
from .. import load, routes, modroute


def user_space_rejects(rep):
    """what the translator rejects: a leading underscore (read from translator.py)"""
    tr = load.read('sourcer/translator.py')
    if "startswith('_')" not in tr:
        raise AnalysisError('anchor: the leading-underscore check vanished from translator.py')


def temp_bases():
    """(file, base) of every out.var(<base>...) temporary and every literal identifier stored by
    emitted rule code, with the scope it lives in"""
    out = []
    for rel in load.expression_files() + ['sourcer/translator.py']:
        tree = load.parse(rel)
        for fname, fn in load.functions_of(tree).items():
            in_global = False
            for node in ast.walk(fn):
                if isinstance(node, ast.Call) and isinstance(node.func, ast.Attribute) and node.func.attr == 'var' \
                        and node.args:
                    a = node.args[0]
                    bases = []
                    if isinstance(a, ast.Constant) and isinstance(a.value, str):
                        bases = [a.value]
                    elif isinstance(a, ast.IfExp):
                        bases = [x.value for x in (a.body, a.orelse) if isinstance(x, ast.Constant)]
                    else:
                        raise AnalysisError(f'{rel}:{fname}: out.var with a computed base name')
                    scope = 'module' if (rel.endswith('regex.py') and fname.endswith('precompile')) else 'rule-function'
                    for b in bases:
                        out.append((rel, fname, b, scope))
    return out


def run(rep, tier):
    rep.explanation = (
        'Namespace separation, computed from the source: (i) every temporary base passed to out.var and '
        'every identifier the emitted rule code stores, per scope (rule-function locals, where let '
        'variables, class fields and parameters live; module globals, where rules and classes live); '
        '(ii) every global or builtin that emitted rule functions, entry points, error functions and '
        'the runtime read by bare name (from the emitted route modules, symbol tables); (iii) names '
        'intercepted before user templates. A generated identifier that shares a scope with user '
        'names, and every bare-name read, must lie outside the user identifier space (leading '
        'underscore). Every instance found today is a genuine collision and is listed in '
        'known_findings.json; a new temporary, builtin use or intercepted name is a fresh violation.')
    rep.not_decided += ['equality of results under renaming on inputs']
    for rid, txt in [
        ('NAME-temporary', 'temporaries sharing a scope with user names start with an underscore'),
        ('NAME-bare-read', 'emitted code and runtime read no global/builtin by a bare name a user may define'),
        ('NAME-class-body', 'generated class bodies reserve no user-space names'),
        ('INTERCEPT-table', 'no user-space name is intercepted before user templates'),
    ]:
        rep.rule(rid, txt)
    user_space_rejects(rep)
    seen = set()
    for rel, fname, base, scope in temp_bases():
        rep.count('temporary allocation sites examined')
        if base.startswith('_'):
            rep.oblige(True)
            continue
        if (base, scope) in seen:
            continue
        seen.add((base, scope))
        rep.oblige(False)
        what = ('a rule, class' if scope == 'module' else 'a let variable, class field or parameter')
        rep.add(Finding('NAME-temporary', scope, base,
                        f'the generator allocates temporaries `{base}<n>` in the {scope} scope ({rel}:{fname}); '
                        f'{what} named e.g. `{base}1` is overwritten by / overwrites it',
                        f'{rel}:{fname}'))
    rep.floor('temporary allocation sites examined', rep.instances.get('temporary allocation sites examined', 0), 30)
    # (ii) bare-name reads in emitted modules
    R, mods = routes.emitted_modules()
    api = {'parse', 'Infix', 'Prefix', 'Postfix', 'ParseError', 'PartialParseError', 'InputError', 'ParsedObject',
           'ParsingRule', 'visit', 'traverse', 'transform'}
    reads = {}
    import symtable
    for m in mods:
        if not isinstance(m, modroute.Emitted):
            continue
        st = symtable.symtable(m.src, '<emitted>', 'exec')
        user_defined = set()
        for o in routes.walk_objs(getattr(m, 'body', []) or []):
            nm = o.d.get('name')
            if isinstance(nm, str) and o.cls.name in ('Rule', 'Class'):
                user_defined.add(nm)
        for n in m.tree.body:
            # names a sub-grammar imports from its parent are the parent's user names / runtime
            if isinstance(n, ast.ImportFrom):
                user_defined |= {a.asname or a.name for a in n.names}
            # module-level temporaries (regex matchers) are reported under NAME-temporary
            if isinstance(n, ast.Assign) and isinstance(n.value, ast.Attribute) and n.value.attr == 'match':
                user_defined |= {t.id for t in n.targets if isinstance(t, ast.Name)}

        def walk(t):
            yield t
            for c in t.get_children():
                yield from walk(c)
        for t in walk(st):
            if t.get_type() != 'function':
                continue
            for s in t.get_symbols():
                name = s.get_name()
                if s.is_global() and s.is_referenced() and not name.startswith('_') and name not in api \
                        and name not in user_defined:
                    kind = 'builtin' if hasattr(builtins, name) else 'global'
                    reads.setdefault((kind, name), t.get_name())
        rep.count('emitted modules scanned for bare-name reads')
    for (kind, name), where in sorted(reads.items()):
        rep.oblige(False)
        rep.add(Finding('NAME-bare-read', kind, name,
                        f'generated code reads the {kind} `{name}` by bare name (e.g. in {where}): a user rule or '
                        f'class named `{name}` rebinds it for the whole module, a field / let variable / parameter '
                        f'named `{name}` shadows it inside its rule function',
                        'sourcer/translator.py templates + sourcer/expressions emission'))
    # (iii) class bodies: the generated __init__(self, <fields>) and the class attributes
    reserved = set()
    for m in mods:
        if isinstance(m, modroute.Emitted) and getattr(m, 'route', '') == 'classes':
            for cname, cls in m.classes.items():
                if cname in ('K', 'P', 'E'):
                    for st in cls.body:
                        if isinstance(st, ast.FunctionDef) and st.name == '__init__' and st.args.args:
                            reserved.add(st.args.args[0].arg)
    rep.count('generated class bodies examined for reserved names', len(reserved))
    for nm in sorted(reserved):
        if not nm.startswith('_'):
            rep.add(Finding('NAME-class-body', 'class', nm,
                            f'the generated constructor names its receiver `{nm}`: a class field named `{nm}` produces '
                            f'`def __init__({nm}, {nm})` (SyntaxError: duplicate argument)',
                            'sourcer/expressions/class_.py:Class._compile_class_body'))
    # entry closures: the generated lambda binds text/pos/fullparse; user parameters of a class must
    # be captured *outside* it, otherwise a parameter named text/pos/fullparse is shadowed
    rep.rule('NAME-entry-shadow', 'user parameters are not read inside the generated entry closure')
    n_entry = 0
    for m in mods:
        if not isinstance(m, modroute.Emitted):
            continue
        for cname, cls in m.classes.items():
            for meth in cls.body:
                if isinstance(meth, ast.FunctionDef) and meth.name == 'parse' and meth.args.args \
                        and [a.arg for a in meth.args.args] != ['text', 'pos', 'fullparse']:
                    user = {a.arg for a in meth.args.args}
                    for lam in [x for x in ast.walk(meth) if isinstance(x, ast.Lambda)]:
                        n_entry += 1
                        bound = {a.arg for a in lam.args.args}
                        used = {x.id for x in ast.walk(lam.body) if isinstance(x, ast.Name)}
                        hit = sorted((used & user))
                        rep.oblige(not hit)
                        if hit:
                            rep.add(Finding('NAME-entry-shadow', 'class-entry', 'parse',
                                            f'{m.label}: {cname}.parse reads the class parameter(s) {hit} inside the '
                                            f'entry closure `lambda {", ".join(sorted(bound))}: ...`: a parameter '
                                            f'named text, pos or fullparse is shadowed by the closure\'s own parameter',
                                            'sourcer/expressions/class_.py:Class._compile_class_body'))
    rep.count('entry closures examined', n_entry)
    rep.floor('entry closures examined', n_entry, 4)
    from . import C06
    C06.interception_table(rep)
    documented = ['Apply', 'Backtrack', 'Byte', 'Choice', 'Discard', 'Expect', 'ExpectNot', 'Fail', 'Left', 'Let',
                  'List', 'Longest', 'Opt', 'Regex', 'Right', 'Sep', 'Seq', 'Skip', 'Some', 'Str', 'Where']
    tree = load.parse('sourcer/expressions/__init__.py')
    exported = {a.asname or a.name for n in tree.body if isinstance(n, ast.ImportFrom) for a in n.names}
    for nm in documented:
        if nm in exported:
            rep.add(Finding('INTERCEPT-table', 'constructor', nm,
                            f'a user rule or class named `{nm}` can never be instantiated as a template: `{nm}(...)` '
                            f'always builds the built-in expression', 'sourcer/translator.py:_create_parsing_expression'))
    from .. import controls
    controls.route_controls(rep)
