"""One-edit variants of /repo.  kind 'break': the listed checks must report a VIOLATION;
kind 'benign': they must stay silent.  Edits are (relative file, old text, new text);
the old text must occur exactly once."""

EX = 'sourcer/expressions/'
TR = 'sourcer/translator.py'

MUTANTS = []


def M(id, kind, props, *edits):
    MUTANTS.append({'id': id, 'kind': kind, 'props': props, 'edits': list(edits)})


# ---------------------------------------------------------------- C01
M('opt-no-restore', 'break', ['C01'],
  (EX + 'opt.py', "            out += POS << backtrack\n            out += RESULT << None", "            out += RESULT << None"))
M('opt-no-none', 'break', ['C01'],
  (EX + 'opt.py', "            out += RESULT << None\n", ""))
M('choice-restore-wrong-flag', 'break', ['C01'],
  (EX + 'choice.py', "if i + 1 < len(self.exprs) and expr.can_partially_succeed():", "if i + 1 < len(self.exprs) and self.exprs[i + 1].can_partially_succeed():"))
M('choice-any-to-all-backtrack', 'break', ['C01'],
  (EX + 'choice.py', "needs_backtrack = any(x.can_partially_succeed() for x in self.exprs)", "needs_backtrack = all(x.can_partially_succeed() for x in self.exprs)"))
M('choice-cp-flag-all', 'break', ['C01'],
  (EX + 'choice.py', "        return not self.always_succeeds() and (\n            any(x.can_partially_succeed() for x in self.exprs)\n        )\n\n    def _compile", "        return not self.always_succeeds() and (\n            all(x.can_partially_succeed() for x in self.exprs)\n        )\n\n    def _compile"))
# not benign: Choice._compile itself consults always_succeeds() to decide whether the
# failure epilogue is emitted, so the 'conservative' flag overwrites a success
M('choice-as-flag-all', 'break', ['C01'],
  (EX + 'choice.py', "        return any(x.always_succeeds() for x in self.exprs)", "        return all(x.always_succeeds() for x in self.exprs)"))
M('choice-skip-last-restore-benign', 'benign', ['C01'],
  (EX + 'choice.py', "if i + 1 < len(self.exprs) and expr.can_partially_succeed():", "if expr.can_partially_succeed():"))
M('expectnot-restore-one-branch', 'break', ['C01'],
  (EX + 'expect.py', "        self.expr.compile(out, flags)\n        out += POS << backtrack\n\n        with out.IF(STATUS):\n            out += STATUS << False",
   "        self.expr.compile(out, flags)\n\n        with out.IF(STATUS):\n            out += POS << backtrack\n            out += STATUS << False"))
M('expect-no-restore', 'break', ['C01'],
  (EX + 'expect.py', "        with utils.if_succeeds(out, flags, self.expr):\n            out += POS << backtrack", "        with utils.if_succeeds(out, flags, self.expr):\n            pass"))
M('expect-cp-false', 'break', ['C01'],
  (EX + 'expect.py', "    def can_partially_succeed(self):\n        return self.expr.can_partially_succeed()", "    def can_partially_succeed(self):\n        return False"))
M('seq-break-dropped', 'break', ['C01'],
  (EX + 'seq.py', "                with utils.if_fails(out, flags, expr):\n                    out += BREAK", "                with utils.if_fails(out, flags, expr):\n                    pass"))
M('discard-keeps-wrong-side', 'break', ['C01'],
  (EX + 'discard.py', "            if self.discard_left:", "            if not self.discard_left:"))
M('skip-no-restore', 'break', ['C01', 'C04'],
  (EX + 'skip.py', "                if expr.can_partially_succeed():\n                    with out.ELSE():\n                        out += POS << checkpoint", "                pass"))
M('skip-stops-after-first', 'break', ['C01', 'C04'],
  (EX + 'skip.py', "                with out.IF(STATUS):\n                    out += Code('continue')", "                with out.IF(STATUS):\n                    out += Code('break')"))
M('longest-no-reset', 'break', ['C01', 'C02'],
  (EX + 'longest.py', "            if i > 0:\n                out += (POS << backtrack)", "            if i > 1:\n                out += (POS << backtrack)"))
M('longest-result-pos-mismatch', 'break', ['C01', 'C02'],
  (EX + 'longest.py', "                    with out.ELIF(farthest_position < POS):\n                        out += (farthest_result << RESULT)\n", "                    with out.ELIF(farthest_position < POS):\n"))
M('str-end-off-by-one', 'break', ['C01'],
  (EX + 'str.py', "end = out.var('end', POS + len(self.value))", "end = out.var('end', POS + len(self.value) + 1)"))
M('str-skip-from-pos', 'break', ['C01', 'C04'],
  (EX + 'str.py', "out += POS << utils.skip_ignored(end, flags)", "out += POS << utils.skip_ignored(POS, flags)"))
M('regex-ignorecase-dropped', 'break', ['C01'],
  (EX + 'regex.py', "flags = '_IGNORECASE' if self.ignore_case else '0'", "flags = '0'"))
M('regex-search-not-match', 'break', ['C01'],
  (EX + 'regex.py', "flags={flags}).match'", "flags={flags}).search'"))
M('byte-guard-dropped', 'break', ['C01'],
  (EX + 'byte.py', "with out.IF(Code(has_byte, ' and ', is_match)):", "with out.IF(is_match):"))
M('byte-skip-on-failure', 'break', ['C01'],
  (EX + 'byte.py', "            out += RESULT << self.error_func()\n            out += STATUS << False\n\n    def complain", "            out += RESULT << self.error_func()\n            out += POS << (POS + 1)\n            out += STATUS << False\n\n    def complain"))
M('backtrack-guard-strict', 'break', ['C01'],
  (EX + 'backtrack.py', "with out.IF(POS >= self.amount):", "with out.IF(POS > self.amount):"))
M('repeat-helper-no-restore', 'break', ['C02'],
  (EX + 'utils.py', "            if can_partially_succeed:\n                out += (POS << checkpoint)\n            out += BREAK", "            out += BREAK"))
M('if-fails-inverted', 'break', ['C01'],
  (EX + 'utils.py', "        with out.IF_NOT(STATUS):\n            yield", "        with out.IF(STATUS):\n            yield"))
M('rename-temporary-benign', 'benign', ['C01', 'C02', 'C03'],
  (EX + 'opt.py', "backtrack = out.var('backtrack', POS)", "backtrack = out.var('_saved', POS)"))
M('opt-reorder-writes-benign', 'benign', ['C01'],
  (EX + 'opt.py', "            out += RESULT << None\n            out += STATUS << True", "            out += STATUS << True\n            out += RESULT << None"))
M('regex-cp-conservative-benign', 'benign', ['C01'],
  (EX + 'regex.py', "    def can_partially_succeed(self):\n        return False", "    def can_partially_succeed(self):\n        return True"))

# ---------------------------------------------------------------- C02
M('optable-restore-inner', 'break', ['C02'],
  (EX + 'operator_table.py', "                # operators that we consumed after it are left in the input.)\n                with out.IF(operand_stack):\n                    out += (POS << outer_checkpoint)", "                # operators that we consumed after it are left in the input.)\n                with out.IF(operand_stack):\n                    out += (POS << inner_checkpoint)"))
M('optable-cp-flag-old', 'break', ['C02'],
  (EX + 'operator_table.py', "        return self.prefixes is not None or self.operands.can_partially_succeed()", "        return self.operands.can_partially_succeed()"))
M('optable-conflict-break-dropped', 'break', ['C02'],
  (EX + 'operator_table.py', "            with out.IF(Code('_is_conflict')):\n                out += BREAK\n", ""))
M('optable-checkpoint-before-postfix', 'break', ['C02'],
  (EX + 'operator_table.py', "            out += operator_marker << Code(f'len({operator_stack})')\n            out += outer_checkpoint << POS\n\n            if self.infixes:",
   "            out += operator_marker << Code(f'len({operator_stack})')\n\n            if self.infixes:"))

# ---------------------------------------------------------------- C03
M('list-max-test-gt', 'break', ['C03'],
  (EX + 'list.py', "with out.IF(LEN(staging) == Code(self.max_len)):", "with out.IF(LEN(staging) > Code(self.max_len)):"))
M('list-min-test-gt', 'break', ['C03'],
  (EX + 'list.py', "condition = LEN(staging) >= Code(self.min_len)", "condition = LEN(staging) > Code(self.min_len)"))
M('list-max-zero-str-forgotten', 'break', ['C03'],
  (EX + 'list.py', "        if self.max_len == 0 or self.max_len == '0':", "        if self.max_len == 0:"))
M('list-as-forgets-str-zero-benign', 'benign', ['C03'],
  (EX + 'list.py', "        return not self.min_len or self.min_len == '0'\n\n    def can", "        return not self.min_len\n\n    def can"))
M('list-cp-old', 'break', ['C03'],
  (EX + 'list.py', "        if self.min_len != 1 and self.min_len != '1':\n            return True\n", ""))
M('list-no-restore', 'break', ['C01', 'C03'],
  (EX + 'list.py', "                if self.expr.can_partially_succeed():\n                    out += POS << checkpoint\n                out += BREAK", "                out += BREAK"))
M('sep-trailer-inverted', 'break', ['C03'],
  (EX + 'sep.py', "            if self.allow_trailer:\n                out += checkpoint << POS", "            if not self.allow_trailer:\n                out += checkpoint << POS"))
M('sep-checkpoint-before-element', 'break', ['C03'],
  (EX + 'sep.py', "            out += staging.append(RESULT)\n            out += checkpoint << POS\n\n            with utils.if_fails(out, flags, self.separator):", "            out += staging.append(RESULT)\n\n            with utils.if_fails(out, flags, self.separator):"))
M('sep-pop-condition', 'break', ['C03'],
  (EX + 'sep.py', "if not self.discard_separators and not self.allow_trailer:", "if not self.discard_separators and self.allow_trailer:"))
M('sep-allow-empty-ignored', 'break', ['C03'],
  (EX + 'sep.py', "        else:\n            with out.IF(staging):\n                out.extend(success)", "        else:\n            out.extend(success)"))
M('sep-as-flag-wrong', 'break', ['C03'],
  (EX + 'sep.py', "        return self.allow_empty and not self.require_separator", "        return self.allow_empty"))

# ---------------------------------------------------------------- C07
M('run-memo-store-deleted', 'break', ['C07'],
  (TR, "            stack.pop()\n            memo[key] = result\n", "            stack.pop()\n"))
M('run-memo-store-wrong-key', 'break', ['C07'],
  (TR, "            memo[key] = result\n", "            memo[result] = result\n"))
M('run-memo-lookup-dropped', 'break', ['C07'],
  (TR, "        elif result in memo:\n            result = memo[result]\n", ""))
M('run-key-without-position', 'break', ['C07'],
  (TR, "            stack.append((result, gtor))", "            stack.append((result[:2], gtor))"))
M('run-memo-reset-in-loop', 'break', ['C07'],
  (TR, "        key, gtor = stack[-1]\n        result = gtor.send(result)", "        key, gtor = stack[-1]\n        if len(stack) == 1:\n            memo = {}\n        result = gtor.send(result)"))
M('run-memo-global', 'break', ['C07', 'C18'],
  (TR, "def _run(${ctx}text, pos, start, fullparse):\n    memo = {}", "_memo = {}\n\ndef _run(${ctx}text, pos, start, fullparse):\n    memo = _memo"))
M('run-hit-copy', 'break', ['C07'],
  (TR, "            result = memo[result]\n", "            result = tuple(memo[result])\n"))
M('run-rename-benign', 'benign', ['C07', 'C08', 'C18'],
  (TR, "    memo = {}\n    result = None\n\n    key = ($CALL, start, pos)", "    memo = dict()\n    result = None\n\n    key = ($CALL, start, pos)"))
M('call-constant-one', 'break', ['C07'],
  (EX + 'constants.py', "CALL = 3", "CALL = 1"))
