"""Runner for E1: enumerate configurations of the requested classes, emit skeletons,
run the flow analysis and the rules; optionally in parallel worker processes."""
import multiprocessing
import os
import traceback

from .common import Finding, AnalysisError
from . import skeleton as SK
from . import e1


def _child_sig(cfg):
    return tuple((k, c.AS, c.CP, c.kind) for k, c in sorted(cfg.children.items()))


def _work(args):
    classes, tier, rank, nworkers, cfg_filter_name = args
    try:
        return _work_inner(classes, tier, rank, nworkers, cfg_filter_name)
    except AnalysisError as e:
        return {'error': str(e)}
    except Exception:
        return {'error': 'internal error in E1 worker:\n' + traceback.format_exc()}


CFG_FILTERS = {
    None: lambda cfg: True,
    # C01 covers `*` and `+`; bounded repetition belongs to C03
    'c01': lambda cfg: not (cfg.cls == 'List' and not (
        cfg.kwargs.get('max_len') is None and cfg.kwargs.get('min_len') in (None, 1))),
}


def _work_inner(classes, tier, rank, nworkers, cfg_filter_name):
    w = SK.World()
    cfg_filter = CFG_FILTERS[cfg_filter_name]
    res = {'findings': [], 'notes': [], 'counts': {}, 'samples': [], 'skeletons': 0,
           'rejected': 0, 'exits': 0, 'starts': 0}
    cache = {}
    i = 0
    for K in classes:
        for cfg in SK.enumerate_configs(w, K, tier):
            if not cfg_filter(cfg):
                continue
            i += 1
            if i % nworkers != rank:
                continue
            try:
                b = w.build(cfg)
            except SK.Rejected:
                res['rejected'] += 1
                continue
            res['counts'][K] = res['counts'].get(K, 0) + 1
            if b.tree is None:
                res['findings'].append(_pack(e1.mk('G0-syntax', b,
                                                   f'emitted code is not valid Python: {b.syntax_error}')))
                continue
            sig = (K, b.src, _child_sig(cfg), repr(sorted(cfg.kwargs.items(), key=repr)),
                   repr([a for a in cfg.args if isinstance(a, (str, bytes, int, type(None)))]),
                   repr(sorted(cfg.post.items())), b.AS, b.CP, repr(getattr(cfg, 'siblings', None)))
            if sig in cache and not cfg.ctx is None and K != 'Ref':
                fs, notes, nex, nst = cache[sig]
                # same skeleton under the other convention: findings carry this key too
                fs = [dict(f, config=cfg.key) for f in fs]
            else:
                an = e1.Analysis(b)
                fl = e1.generic(b, an) + e1.g5_local_stores(b, an) + e1.g6_temp_unique(b, an) + e1.spec(b, an)
                fs = [_pack(f) for f in fl]
                notes = e1.g4_notes(b, an)
                nex, nst = len(an.exits), len(an.starts)
                res['skeletons'] += 1
                cache[sig] = (fs, notes, nex, nst)
                if len(res['samples']) < 2 and rank == 0:
                    res['samples'].append({'config': cfg.key, 'AS': b.AS, 'CP': b.CP,
                                           'skeleton': b.src[:1500],
                                           'exits': [repr(s) for s in an.exits][:6]})
            res['exits'] += nex
            res['starts'] += nst
            res['findings'] += fs
            res['notes'] += notes
    return res


def _pack(f):
    return {'rule': f.rule, 'construct': f.construct, 'config': f.config,
            'message': f.message, 'where': f.where, 'detail': f.detail}


def run(rep, classes, tier, select=None, cfg_filter=None, jobs=None):
    """Analyse all configurations of `classes`; add selected findings to the report."""
    w = SK.World()
    for p in SK.check_tables(w):
        rep.error(p)
    known = w.classes()
    for K in classes:
        if K not in known:
            rep.error(f'anchor class {K} vanished')
    classes = [K for K in classes if K in known]
    if jobs is None:
        jobs = int(os.environ.get('VERIF_JOBS', '0') or 0) or min(16, os.cpu_count() or 1)
    heavy = any(K in ('OperatorTable', 'Seq') for K in classes) or tier == 'thorough'
    nworkers = jobs if heavy else 1
    tasks = [(classes, tier, r, nworkers, cfg_filter) for r in range(nworkers)]
    if nworkers == 1:
        results = [_work(tasks[0])]
    else:
        ctx = multiprocessing.get_context('fork')
        with ctx.Pool(nworkers) as pool:
            results = pool.map(_work, tasks)
    total = {}
    for r in results:
        if 'error' in r:
            rep.error(r['error'])
            continue
        for K, n in r['counts'].items():
            total[K] = total.get(K, 0) + n
        rep.count('distinct skeletons analysed', r['skeletons'])
        rep.count('skeleton exits examined', r['exits'])
        rep.count('child starts examined', r['starts'])
        for s in r['samples']:
            rep.sample(s)
        for n in r['notes']:
            rep.note(n)
        for f in r['findings']:
            if select is None or select(f):
                rep.add(Finding(f['rule'], f['construct'], f['config'], f['message'],
                                f['where'], f['detail']))
    for K, n in total.items():
        rep.count(f'configurations of {K} (x2 conventions)', n)
        rep.oblige(True, n)
    return total
