"""./check <Cxx> [--tier quick|thorough] [--replay <file>]"""
import argparse
import importlib
import json
import os
import sys
import traceback

from .common import Report, AnalysisError, REPO, VERIF


def selfcheck():
    import glob
    from . import load
    n = 0
    for f in sorted(glob.glob(os.path.join(VERIF, 'sva', '**', '*.py'), recursive=True)):
        if '/vendor/' in f:
            continue
        with open(f) as fh:
            compile(fh.read(), f, 'exec')
        n += 1
    os_mod = load.load_outsourcer()
    print(f'selfcheck: {n} checker modules compile; outsourcer from {os_mod.__verif_path__} '
          f'({os_mod.__verif_digest__})')
    return 0


def selftest_for(pid, rep):
    """thorough tier: the one-edit variants of the corpus that belong to this property are built
    from the tree under analysis in scratch directories (outside /repo and /verif, removed after
    use) and the quick check is run on each: `break` variants must be reported, `benign` ones not.
    A variant that is not judged as expected means the *checker* is broken: exit 2, never a verdict."""
    import importlib.util
    from concurrent.futures import ThreadPoolExecutor
    spec = importlib.util.spec_from_file_location('selftest_run', os.path.join(VERIF, 'selftest', 'run.py'))
    st = importlib.util.module_from_spec(spec)
    spec.loader.exec_module(st)
    muts = [dict(m, props=[pid]) for m in st.load_mutants() if pid in m['props']]
    if not muts:
        return
    os.environ['VERIF_NO_SELFTEST'] = '1'
    bad = []
    with ThreadPoolExecutor(int(os.environ.get('VERIF_SELFTEST_JOBS', '12'))) as ex:
        for mut, status, detail, res in ex.map(lambda m: st.run_one(m, 'quick'), muts):
            rep.count('self-test variants judged')
            if status == 'NOT-APPLICABLE':
                rep.note(f'self-test variant {mut["id"]} does not apply to this tree ({detail})')
            elif status != 'PASS':
                bad.append(f'{mut["kind"]} variant {mut["id"]}:{detail[:200]}')
    rep.sample({'self-test variants': [m['id'] for m in muts]})
    if bad and not rep.findings:
        for b in bad:
            rep.error(f'self-test: {b}')


def main(argv=None):
    argv = sys.argv[1:] if argv is None else argv
    if argv and argv[0] == '--selfcheck':
        return selfcheck()
    ap = argparse.ArgumentParser()
    ap.add_argument('pid')
    ap.add_argument('--tier', default=os.environ.get('VERIF_TIER') or 'quick',
                    choices=['quick', 'thorough'])
    ap.add_argument('--replay')
    a = ap.parse_args(argv)
    pid = a.pid.upper()
    if a.replay:
        with open(a.replay) as f:
            r = json.load(f)
        print(f'replay of {r.get("rule")} on {r.get("construct")} [{r.get("config")}] '
              f'at {r.get("where")}:\n  {r.get("message")}')
        sk = (r.get('detail') or {}).get('skeleton')
        if sk:
            print('--- emitted skeleton ---\n' + sk)
        print('re-running the check that owns this instance:')
    rep = Report(pid, a.tier)
    try:
        mod = importlib.import_module(f'sva.props.{pid}')
    except ModuleNotFoundError:
        print(f'ANALYSIS-ERROR property={pid} no check registered')
        return 2
    try:
        mod.run(rep, a.tier)
        if a.tier == 'thorough' and not os.environ.get('VERIF_NO_SELFTEST'):
            selftest_for(pid, rep)
    except AnalysisError as e:
        rep.error(f'{type(e).__name__}: {e}')
    except RecursionError:
        rep.error('internal error: recursion limit in checker')
    except Exception:
        rep.error('internal error in checker: ' + traceback.format_exc().replace('\n', ' | '))
    return rep.finish()


if __name__ == '__main__':
    sys.setrecursionlimit(20000)
    sys.exit(main())
