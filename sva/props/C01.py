"""C01 - PEG semantics of the core expressions (E1 + translator literal mapping)."""
from .. import e1run
from . import shared

CLASSES = ['Str', 'Regex', 'Byte', 'Ref', 'Seq', 'Discard', 'Choice', 'Opt', 'List',
           'Expect', 'ExpectNot', 'Skip', 'Longest', 'Backtrack', 'Fail']
FLOORS = {'Str': 16, 'Regex': 16, 'Byte': 4, 'Ref': 12, 'Seq': 1300, 'Discard': 36,
          'Choice': 160, 'Opt': 6, 'List': 12, 'Expect': 6, 'ExpectNot': 6, 'Skip': 78,
          'Longest': 160, 'Backtrack': 6, 'Fail': 4}
SKIP_RULES = {'S-span', 'S-binder'}     # decided under C10 / C05


def run(rep, tier):
    rep.explanation = (
        'For every expression class named by the property, every configuration of its own '
        'attributes, every (always_succeeds, can_partially_succeed, is-Fail) observation of its '
        'children and both calling conventions, the code skeleton the generator emits is obtained '
        'by partial evaluation of sourcer/expressions/*.py (children abstract), and an '
        'explicit-state provenance analysis of the skeleton decides: G1 a failed attempt\'s '
        'position never reaches a later child or a success exit; G2 the static flags are sound '
        'over-approximations of the skeleton; G3 register protocol; S the position/value flow '
        'table of the PEG constructs (ordered choice commits to the first success, options and '
        'lookaheads return to the entry position, sequence elements chain, literals end exactly '
        'at their own end, ignored text is skipped only after a successful literal). Each rule '
        'is proved assuming only the same summaries for the children, so by structural induction '
        'it holds for every expression tree. The structural clause - not parse results on '
        'inputs - is what is decided.')
    rep.not_decided += ['that `re` implements the regular expression',
                        'equality of parsed values on concrete inputs',
                        'termination (left recursion and nullable repetition are excluded by the property)']
    rep.assumptions += ['children obey the register protocol and their own flags (induction hypothesis)',
                        'CPython semantics of the emitted statements',
                        'outsourcer renders Code objects as the installed version does']
    shared.describe_rules(rep)
    total = e1run.run(rep, CLASSES, tier,
                      select=lambda f: f['rule'] not in SKIP_RULES, cfg_filter='c01')
    for K, want in FLOORS.items():
        rep.floor(f'configurations of {K}', total.get(K, 0), want)
    shared.literal_mapping(rep)
    # `a | b` commits in the written order and keeps compound operands (a sequence, Longest, Skip) whole: the
    # translator's handling of `|` against the constructor form (rule shared with C19)
    from .. import mapping
    mapping.spelling_pairs(rep)
    shared.controls_e1(rep)
