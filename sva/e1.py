"""E1 rules: generic register-protocol rules (G1-G4) and the per-class position/value
flow specification (S) evaluated on every emitted skeleton.

The specification below *is* the PEG meaning of the constructs, transcribed from the
README ("Parsing Expressions") and the property statements; it never looks at names of
temporaries, only at provenance of values.
"""
import ast
import re

from .common import Finding, AnalysisError, Unsupported
from . import flow as F
from .flow import fmt

ENTRY = 'ENTRY'
NONE = ('CONST', 'None')


def SUCC(c):
    return ('SUCC', c)


def FAIL(c):
    return ('FAIL', c)


def OK(c):
    return ('OK', c)


def ERR(c):
    return ('ERR', c)


def contains(t, pred):
    if pred(t):
        return True
    if isinstance(t, (tuple, frozenset)):
        return any(contains(x, pred) for x in t)
    return False


def has_fail(t):
    return contains(t, lambda x: isinstance(x, tuple) and len(x) == 2 and x[0] == 'FAIL')


def has_err(t):
    return contains(t, lambda x: x == 'ERRSELF' or (isinstance(x, tuple) and len(x) == 2 and x[0] == 'ERR'))


def is_err(t):
    return t == 'ERRSELF' or (isinstance(t, tuple) and len(t) == 2 and t[0] == 'ERR')


class Ghost(F.Hooks):
    """Ghost state used by the loop specs.
       '#ok:<slot>'   a success of <slot> has happened
       '#last'        slot whose result was appended last ('popped:<x>' after a pop)
       '#pend'        an element was appended and the upper-bound test not yet passed
       '#atmax'       the upper-bound test was true
       '#minok'       the lower-bound test was true
       '#restart'     Skip: a child succeeded, the scan must restart
       '#opq'         OperatorTable: an infix operator was consumed and no operand yet
       '#ended'       OperatorTable: the expression was ended by a restore
    """

    def __init__(self, cls, cfg):
        self.cls = cls
        self.cfg = cfg
        self.viol = []          # (rule, message)

    # helpers
    def list_bound_terms(self, flow, s):
        kw = self.cfg.kwargs
        def term(v):
            if v is None:
                return None
            if isinstance(v, int):
                return ('CONST', repr(v))
            try:
                return ('CONST', repr(int(v)))
            except ValueError:
                return ('VAR', v)
        return term(kw.get('min_len')), term(kw.get('max_len'))

    def on_child(self, flow, slot, pre, outs):
        K = self.cls
        if K == 'Skip':
            first = sorted(self.cfg.children)[0]
            if pre.bl.get('#restart') and slot != first:
                self.viol.append(('S-skip-restart',
                                  f'after a successful ignored pattern the scan continues with {slot} '
                                  f'instead of restarting from the first pattern'))
            for o in outs:
                if slot == first:
                    o.bl.pop('#restart', None)
                if o.st and not flow.children[slot].AS:
                    o.bl['#restart'] = True
        if K == 'OperatorTable':
            if pre.bl.get('#ended'):
                self.viol.append(('S-optable-end-terminal',
                                  f'child {slot} is started after the expression was ended by restoring '
                                  f'the position saved before a consumed operator'))
            for o in outs:
                if o.st and slot == 'inf':
                    o.bl['#opq'] = True
                if o.st and slot == 'opd':
                    o.bl.pop('#opq', None)
                if o.st and slot == 'pre':
                    o.bl['#uncommitted'] = True       # a prefix operator was consumed and pushed
        if K == 'List' and (pre.bl.get('#pend') or pre.bl.get('#atmax')):
            self.viol.append(('S-list-max',
                              'the element is attempted again without the upper-bound test having '
                              'been passed since the last append (or after it was true)'))
        if K == 'Sep':
            for o in outs:
                if o.st:
                    o.bl['#ok:' + slot] = True
        return outs

    def on_event(self, flow, kind, name, node, s, val):
        K = self.cls
        if kind == 'append' and isinstance(val, tuple) and val and val[0] == 'OK':
            if K == 'Sep':
                prev = s.bl.get('#last')
                if not self.cfg.kwargs.get('discard_separators') and prev == val[1]:
                    what = 'elements' if val[1] == 'e' else 'separators'
                    msg = (f'Sep(discard_separators=False): two {what} are appended next to each other - the '
                           f'separator matched between two elements does not reach the result on this path')
                    if ('S-value', msg) not in self.viol:
                        self.viol.append(('S-value', msg))
                s.bl['#last'] = val[1]
            if K == 'List' and self.cfg.kwargs.get('max_len') is not None:
                s.bl['#pend'] = True
        elif kind == 'pop' and K == 'Sep':
            s.bl['#last'] = 'popped:' + str(s.bl.get('#last'))
        elif kind == 'assign' and K == 'OperatorTable' and name == getattr(self, 'marker', None):
            s.bl.pop('#uncommitted', None)
        elif kind == 'assign' and name == '_pos' and K == 'OperatorTable' and s.bl.get('#uncommitted') \
                and val != s.env.get('_pos') and val in (SUCC('opd'), SUCC('post')):
            # the position is put back behind the last operand: the prefix operators read since then
            # are no longer consumed, dropping them from the stack is right
            s.bl.pop('#uncommitted', None)
            if s.bl.get('#opq'):
                s.bl['#ended'] = True
        elif kind == 'assign' and name == '_pos' and K == 'OperatorTable':
            if s.bl.get('#opq') and val != s.env.get('_pos') and val in (
                    SUCC('opd'), SUCC('post')):
                s.bl['#ended'] = True

    def on_test(self, flow, node, s, trues, falses):
        if self.cls != 'List':
            return trues, falses
        mn, mx = self.list_bound_terms(flow, s)
        t = node.test
        neg = False
        while isinstance(t, ast.UnaryOp) and isinstance(t.op, ast.Not):
            t, neg = t.operand, not neg
        if neg:
            trues, falses = falses, trues
        kind = None
        if isinstance(t, ast.Compare) and len(t.ops) == 1:
            l, r = flow.val(t.left, s), flow.val(t.comparators[0], s)
            op = type(t.ops[0])
            def is_len(x):
                return isinstance(x, tuple) and x[:1] == ('LEN',)
            if is_len(r) and not is_len(l):
                l, r = r, l
                op = {ast.Lt: ast.Gt, ast.Gt: ast.Lt, ast.LtE: ast.GtE, ast.GtE: ast.LtE}.get(op, op)
            if is_len(l):
                if mx is not None and mx == mn and r == mx and op is ast.GtE:
                    kind = 'both'       # an exact count: one comparison serves as upper and as lower bound test
                elif mx is not None and r == mx and op in (ast.Eq, ast.GtE):
                    kind = 'max'
                elif mn is not None and r == mn and op is ast.GtE:
                    kind = 'min'
                elif mn is not None and mn[0] == 'CONST' and r[0] == 'CONST' and op is ast.Gt \
                        and int(r[1]) == int(mn[1]) - 1:
                    kind = 'min'
        elif isinstance(t, ast.Name) and mn == ('CONST', '1') and t.id in s.emp:
            kind = 'min'
        if kind == 'both':
            trues = [self._set(x, {'#atmax': True, '#minok': True}, ['#pend']) for x in trues]
            # the comparison was already true (the loop stopped at the bound) and nothing was appended
            # since: it cannot be false now
            falses = [self._set(x, {}, ['#pend']) for x in falses if not x.bl.get('#atmax')]
        elif kind == 'max':
            trues = [self._set(x, {'#atmax': True}, ['#pend']) for x in trues]
            falses = [self._set(x, {}, ['#pend']) for x in falses]
        elif kind == 'min':
            trues = [self._set(x, {'#minok': True}, []) for x in trues]
            # assumption min_len <= max_len: having stopped at the upper bound, the
            # lower bound holds
            falses = [x for x in falses if not x.bl.get('#atmax')]
        if neg:
            trues, falses = falses, trues
        return trues, falses

    @staticmethod
    def _set(s, add, remove):
        s = s.copy()
        for k in remove:
            s.bl.pop(k, None)
        s.bl.update(add)
        return s


class Analysis:
    def __init__(self, built, stmts=None, children=None, entry_env=None):
        self.built = built
        cfg = built.cfg
        self.cls = cfg.cls
        tree_stmts = stmts if stmts is not None else built.tree.body
        ch = children if children is not None else cfg.children
        track = set()
        if self.cls == 'Let':
            track.add(cfg.args[0])
        track |= {n for n in (cfg.kwargs.get('names') or []) if n}
        pre = F.Flow(tree_stmts, ch, use_hist=False, entry_env=entry_env, track=track)
        pre.run()
        self.loop_free = pre.back_edges == 0
        self.ghost = Ghost(self.cls, cfg)
        if self.cls == 'OperatorTable':
            # the commit marker: the variable that bounds the final truncation `stack = stack[:marker]`
            for n in ast.walk(built.tree):
                if isinstance(n, ast.Assign) and isinstance(n.value, ast.Subscript) \
                        and isinstance(n.value.slice, ast.Slice) and n.value.slice.lower is None \
                        and isinstance(n.value.slice.upper, ast.Name) and isinstance(n.value.value, ast.Name) \
                        and any(isinstance(t, ast.Name) and t.id == n.value.value.id for t in n.targets):
                    self.ghost.marker = n.value.slice.upper.id
        self.flow = F.Flow(tree_stmts, ch, use_hist=self.loop_free, hooks=self.ghost,
                           entry_env=entry_env, track=track)
        if self.cls == 'List':
            mx = cfg.kwargs.get('max_len')
            symbolic = isinstance(mx, str) and not mx.lstrip('-').isdigit()
            if symbolic:
                # a data-dependent upper bound may be 0: even the first attempt must be preceded by
                # the upper-bound test
                self.flow.initial_bl = {'#pend': True}
        self.flow.run()
        self.exits = [s for kind, s, node in self.flow.exits if kind in ('fall', 'yield')]
        self.starts = self.flow.starts


def where_of(built):
    c = built.obj.cls
    fn = c.lookup('_compile') if c.has('_compile') else None
    line = getattr(getattr(fn, 'node', None), 'lineno', '?')
    return f'{c.module.rel}:{c.name}._compile (line {line})'


def mk(rule, built, msg, an=None, extra=None):
    d = {'skeleton': built.src, 'AS': built.AS, 'CP': built.CP}
    if extra:
        d.update(extra)
    return Finding(rule, built.cfg.cls, built.cfg.key, msg, where_of(built), d)


# ---------------------------------------------------------------- generic rules
def generic(built, an):
    out = []
    K = built.cfg.cls
    if built.AS and built.CP:
        out.append(mk('F0-flags-exclusive', built,
                      'always_succeeds() and can_partially_succeed() are both True'))
    for slot, s in an.starts:
        if has_fail(s.pos):
            out.append(mk('G1-no-trace', built,
                          f'child {slot} is started at {fmt(s.pos)}: the position left by a failed '
                          f'attempt is reused', an, {'at': f'start of {slot}'}))
    # the status register holds True or False and nothing else: the driver tells a finished rule's
    # (status, result, position) from a request (CALL, function, position) by the first slot alone
    for n in ast.walk(built.tree):
        if isinstance(n, ast.Assign) and any(isinstance(t, ast.Name) and t.id == '_status' for t in n.targets):
            v = n.value

            def boolean(e, depth=0):
                """an expression whose value is True or False whatever its operands hold"""
                if isinstance(e, ast.Constant):
                    return isinstance(e.value, bool)
                if isinstance(e, ast.UnaryOp) and isinstance(e.op, ast.Not):
                    return True
                if isinstance(e, ast.Compare):
                    return True
                if isinstance(e, ast.Call) and isinstance(e.func, ast.Name) and e.func.id in ('bool', 'isinstance', 'callable'):
                    return True
                if isinstance(e, ast.BoolOp):
                    return all(boolean(x, depth) for x in e.values)
                if isinstance(e, ast.IfExp):
                    return boolean(e.body, depth) and boolean(e.orelse, depth)
                if isinstance(e, ast.Name) and depth < 3 and e.id != '_status':
                    # a flag: every assignment to it in this skeleton is boolean
                    vals = [a.value for a in ast.walk(built.tree) if isinstance(a, ast.Assign)
                            and any(isinstance(t, ast.Name) and t.id == e.id for t in a.targets)]
                    return bool(vals) and all(boolean(x, depth + 1) for x in vals)
                return False
            if not boolean(v):
                out.append(mk('G3-protocol', built,
                              f'`_status = {ast.unparse(v)[:60]}` stores a value that need not be True or False in the '
                              f'status register: a rule ending with status 3 (the CALL tag) is taken for a request by '
                              f'the driver'))
    for s in an.exits:
        if s.st is None:
            out.append(mk('G3-protocol', built,
                          f'an exit leaves _status indefinite ({s!r})'))
            continue
        if s.st:
            if has_fail(s.pos):
                out.append(mk('G1-no-trace', built,
                              f'success exit at {fmt(s.pos)}: the position left by a failed attempt '
                              f'is returned', an, {'at': 'success exit'}))
            if has_err(s.res):
                out.append(mk('G3-protocol', built,
                              f'success exit returns an error function as value ({fmt(s.res)})'))
            if s.res == 'IN':
                out.append(mk('G3-protocol', built,
                              'success exit without writing the result register'))
        else:
            if built.AS:
                out.append(mk('G2-as-sound', built,
                              f'always_succeeds() is True but a failure exit exists ({s!r})'))
            if not built.CP and s.pos != ENTRY:
                out.append(mk('G2-cp-sound', built,
                              f'can_partially_succeed() is False but a failure exit leaves _pos at '
                              f'{fmt(s.pos)}'))
            if not is_err(s.res):
                out.append(mk('G3-protocol', built,
                              f'failure exit with a result that is not an error function '
                              f'({fmt(s.res)}); the driver calls it'))
    return out


def g5_local_stores(built, an):
    """emitted rule code writes only through locals of the rule function (each attempt,
    invocation and parse has its own frame): no global/nonlocal, no store rooted elsewhere"""
    out = []
    tree = built.tree
    local = {'_pos', '_result', '_status'}
    for n in ast.walk(tree):
        if isinstance(n, ast.Name) and isinstance(n.ctx, ast.Store):
            local.add(n.id)
    for n in ast.walk(tree):
        if isinstance(n, (ast.Global, ast.Nonlocal)):
            out.append(mk('G5-local-stores', built, f'emitted code declares {", ".join(n.names)} '
                                                     f'{type(n).__name__.lower()}: a binding shared between '
                                                     f'invocations'))
        if isinstance(n, (ast.Attribute, ast.Subscript)) and isinstance(n.ctx, (ast.Store, ast.Del)):
            r = n
            while isinstance(r, (ast.Attribute, ast.Subscript)):
                r = r.value
            if not (isinstance(r, ast.Name) and r.id in local):
                out.append(mk('G5-local-stores', built, f'emitted code stores through `{ast.unparse(n)}`, which '
                                                         f'is not rooted at a local of the rule function'))
        if isinstance(n, ast.Call) and isinstance(n.func, ast.Attribute) and n.func.attr in (
                'append', 'extend', 'pop', 'clear', 'update', 'add', 'setdefault', 'insert', 'remove'):
            r = n.func.value
            while isinstance(r, (ast.Attribute, ast.Subscript)):
                r = r.value
            if isinstance(r, ast.Name) and r.id not in local:
                out.append(mk('G5-local-stores', built, f'emitted code mutates `{ast.unparse(n.func.value)}`, '
                                                         f'which is not a local of the rule function'))
    return out


# ---- G6: temporaries that are live across a sub-expression are unique per instance
def _loads(node):
    return {n.id for n in ast.walk(node) if isinstance(n, ast.Name) and isinstance(n.ctx, ast.Load)}


def _stores(node):
    return {n.id for n in ast.walk(node) if isinstance(n, ast.Name) and isinstance(n.ctx, ast.Store)}


def _is_child_call(st):
    """the statement runs a sub-expression: a child placeholder or a request to the driver"""
    for n in ast.walk(st):
        if isinstance(n, ast.Call) and isinstance(n.func, ast.Name) and n.func.id == '__CHILD__':
            return True
        if isinstance(n, (ast.Yield, ast.YieldFrom)):
            return True
    return False


def live_across_children(tree):
    """structured backward liveness over the skeleton; -> {name: statement} for every name that is
    live after a statement that runs a sub-expression and is not defined by that statement"""
    across = {}

    def block(stmts, out, brk, cont):
        live = set(out)
        for st in reversed(stmts):
            live = stmt(st, live, brk, cont)
        return live

    def stmt(st, out, brk, cont):
        if isinstance(st, ast.If):
            return _loads(st.test) | block(st.body, out, brk, cont) | block(st.orelse, out, brk, cont)
        if isinstance(st, (ast.While, ast.For)):
            head = set(out)
            always = isinstance(st, ast.While) and isinstance(st.test, ast.Constant) and bool(st.test.value)
            for _ in range(50):
                body_in = block(st.body, head, set(out), head)
                if isinstance(st, ast.For):
                    new = (body_in - _stores(st.target)) | _loads(st.iter) | set(out)
                else:
                    new = body_in | _loads(st.test) | (set() if always else set(out))
                new |= block(st.orelse, out, brk, cont) if st.orelse else set()
                if new == head:
                    break
                head = new
            return head
        if isinstance(st, ast.Break):
            return set(brk)
        if isinstance(st, ast.Continue):
            return set(cont)
        if isinstance(st, (ast.Return, ast.Raise)):
            return _loads(st)
        if isinstance(st, ast.Try):
            inner = block(st.body + st.orelse + st.finalbody, out, brk, cont)
            for h in st.handlers:
                inner |= block(h.body, out, brk, cont)
            return inner
        if isinstance(st, ast.With):
            return block(st.body, out, brk, cont) | set().union(*[_loads(i.context_expr) for i in st.items])
        if isinstance(st, (ast.FunctionDef, ast.ClassDef)):
            return (set(out) - {st.name}) | (_loads(st) - _stores(st))
        # simple statement
        defs = set()
        if isinstance(st, ast.Assign):
            for t in st.targets:
                if isinstance(t, ast.Name):
                    defs.add(t.id)
                elif isinstance(t, (ast.Tuple, ast.List)) and all(isinstance(e, ast.Name) for e in t.elts):
                    defs |= {e.id for e in t.elts}
        if _is_child_call(st):
            for n in set(out) - defs:
                across.setdefault(n, st)
        return (set(out) - defs) | _loads(st)

    block(tree.body, set(), set(), set())
    return across


REGISTERS = {'_status', '_result', '_pos', '_text', '_ctx', '_super_ctx'}


def g6_temp_unique(built, an):
    """A local of the emitted code whose value must survive a sub-expression (assigned before the
    child runs, read after it) is either a register, a name the user chose, or a temporary numbered
    by the builder (`out.var`): the sub-expression may contain another instance of the same class,
    compiled into the same function, and a fixed scratch name would be overwritten by it."""
    out = []
    tree = built.tree
    if tree is None:
        return out
    assigned = _stores(tree)
    user = set()

    def strings(x):
        if isinstance(x, str):
            user.add(x)
        elif isinstance(x, (list, tuple, set)):
            for y in x:
                strings(y)
        elif isinstance(x, dict):
            for y in x.values():
                strings(y)
    strings(built.cfg.args)
    strings(built.cfg.kwargs)
    strings(built.cfg.post)
    counters = dict(getattr(getattr(built, 'out', None), '_names', {}) or {})
    for name, st in sorted(live_across_children(tree).items()):
        if name not in assigned or name in REGISTERS or name in user:
            continue
        m = re.match(r'^(.*?)(\d+)$', name)
        if m and 1 <= int(m.group(2)) <= counters.get(m.group(1), 0):
            continue                        # numbered by the builder: unique per instance
        out.append(mk('G6-temp-unique', built,
                      f'the scratch name `{name}` is live across a sub-expression (`{ast.unparse(st)[:60]}`) but is '
                      f'not numbered by the builder: another {built.cfg.cls} nested inside that sub-expression is '
                      f'compiled into the same function and overwrites it'))
    return out


def g4_notes(built, an):
    return [f'{built.cfg.cls}: {n}' for n in an.flow.notes]


# ---------------------------------------------------------------- per-class specs
def hist_children(hist):
    return [(h[0], h[1]) for h in hist if h[0] != 'T']


def hist_tests(hist):
    return [h for h in hist if h[0] == 'T']


def spec(built, an):
    fn = SPECS.get(built.cfg.cls)
    if fn is None:
        return []
    msgs = []
    fn(built, an, lambda rule, m: msgs.append((rule, m)))
    for rule, m in an.ghost.viol:
        msgs.append((rule, m))
    out = []
    seen = set()
    for rule, m in msgs:
        if (rule, m) in seen:
            continue
        seen.add((rule, m))
        out.append(mk(rule, built, m))
    return out


def expect_exit(s, st, pos, res, bad, what, rule='S-flow'):
    if s.st != st:
        bad(rule, f'{what}: expected _status={st}, skeleton gives {s.st}')
        return
    if pos is not None and s.pos not in (pos if isinstance(pos, (set, list)) else [pos]):
        bad(rule, f'{what}: expected _pos {fmt_set(pos)}, skeleton gives {fmt(s.pos)}')
    if res is not None and s.res not in (res if isinstance(res, (set, list)) else [res]):
        bad('S-value' if rule == 'S-flow' else rule,
            f'{what}: expected _result {fmt_set(res)}, skeleton gives {fmt(s.res)}')


def fmt_set(x):
    if isinstance(x, (set, list)):
        return '{' + ', '.join(sorted(fmt(t) for t in x)) + '}'
    return fmt(x)


def fail_pos(c, ch):
    return FAIL(c) if ch[c].CP else None


def spec_opt(b, an, bad):
    ch = b.cfg.children
    for slot, s in an.starts:
        if s.pos != ENTRY:
            bad('S-flow', f'Opt: child starts at {fmt(s.pos)}, expected ENTRY')
    for s in an.exits:
        h = hist_children(s.hist)
        if h == [('e', True)]:
            expect_exit(s, True, SUCC('e'), OK('e'), bad, 'Opt, inner success')
        elif h == [('e', False)]:
            expect_exit(s, True, ENTRY, NONE, bad, 'Opt, inner failure')
        else:
            bad('S-flow', f'Opt: exit after unexpected child sequence {h}')
    need(an, [('e',)], bad, 'Opt')


def need(an, slots_each_started, bad, what):
    started = {slot for slot, _ in an.starts}
    for (slot,) in slots_each_started:
        if slot not in started:
            bad('S-flow', f'{what}: child {slot} is never started')


def spec_expect(b, an, bad):
    ch = b.cfg.children
    for slot, s in an.starts:
        if s.pos != ENTRY:
            bad('S-flow', f'Expect: child starts at {fmt(s.pos)}')
    for s in an.exits:
        h = hist_children(s.hist)
        if h == [('e', True)]:
            expect_exit(s, True, ENTRY, OK('e'), bad, 'Expect, inner success (lookahead consumes nothing)')
        elif h == [('e', False)]:
            expect_exit(s, False, None, ERR('e'), bad, 'Expect, inner failure')
        else:
            bad('S-flow', f'Expect: exit after unexpected child sequence {h}')
    need(an, [('e',)], bad, 'Expect')


def spec_expectnot(b, an, bad):
    for slot, s in an.starts:
        if s.pos != ENTRY:
            bad('S-flow', f'ExpectNot: child starts at {fmt(s.pos)}')
    for s in an.exits:
        h = hist_children(s.hist)
        if h == [('e', True)]:
            expect_exit(s, False, ENTRY, 'ERRSELF', bad, 'ExpectNot, inner success')
        elif h == [('e', False)]:
            expect_exit(s, True, ENTRY, NONE, bad, 'ExpectNot, inner failure')
        else:
            bad('S-flow', f'ExpectNot: exit after unexpected child sequence {h}')
    need(an, [('e',)], bad, 'ExpectNot')


def spec_choice(b, an, bad):
    ch = b.cfg.children
    slots = sorted(ch)
    # options after an always-succeeding one are unreachable
    reach = []
    for c in slots:
        reach.append(c)
        if ch[c].AS:
            break
    for slot, s in an.starts:
        i = slots.index(slot)
        want = [(c, False) for c in slots[:i]]
        if s.pos != ENTRY:
            bad('S-flow', f'Choice: option {slot} starts at {fmt(s.pos)}, expected ENTRY '
                          f'(every alternative starts where the choice started)')
        if hist_children(s.hist) != want:
            bad('S-choice-order', f'Choice: option {slot} is started after {hist_children(s.hist)}; '
                                  f'it may only be tried when all earlier options failed, in order')
    need(an, [(c,) for c in reach], bad, 'Choice')
    for s in an.exits:
        h = hist_children(s.hist)
        oks = [c for c, ok in h if ok]
        if oks:
            c = oks[0]
            if len(oks) != 1 or h[-1] != (c, True):
                bad('S-choice-order', f'Choice: exit after {h}: does not commit to the first success')
            expect_exit(s, True, SUCC(c), OK(c), bad, f'Choice, option {c} matched')
        else:
            if [c for c, _ in h] != reach:
                bad('S-choice-order', f'Choice: failure exit after trying only {h}')
            if s.st is not False:
                bad('S-flow', f'Choice: all options failed but _status={s.st}')


def spec_longest(b, an, bad):
    ch = b.cfg.children
    slots = sorted(ch)
    for slot, s in an.starts:
        if s.pos != ENTRY:
            bad('S-flow', f'Longest: option {slot} starts at {fmt(s.pos)}, expected ENTRY')
        i = slots.index(slot)
        if [c for c, _ in hist_children(s.hist)] != slots[:i]:
            bad('S-flow', f'Longest: option {slot} started after {hist_children(s.hist)}')
    need(an, [(c,) for c in slots], bad, 'Longest')
    for s in an.exits:
        h = hist_children(s.hist)
        if [c for c, _ in h] != slots:
            bad('S-flow', f'Longest: exit after trying only {h} (every option must be tried)')
        oks = [c for c, ok in h if ok]
        if oks:
            if s.st is not True:
                bad('S-flow', f'Longest: options {oks} matched but _status={s.st}')
                continue
            pairs = [(SUCC(c), OK(c)) for c in oks]
            if (s.pos, s.res) not in pairs:
                bad('S-value', f'Longest: success exit with _pos={fmt(s.pos)}, _result={fmt(s.res)}: '
                               f'position and value must come from the same matched option')
        else:
            if s.st is not False:
                bad('S-flow', f'Longest: no option matched but _status={s.st}')


def seq_like_starts(an, slots, bad, what):
    for slot, s in an.starts:
        i = slots.index(slot)
        want_pos = ENTRY if i == 0 else SUCC(slots[i - 1])
        if s.pos != want_pos:
            bad('S-flow', f'{what}: {slot} starts at {fmt(s.pos)}, expected {fmt(want_pos)}')
        if hist_children(s.hist) != [(c, True) for c in slots[:i]]:
            bad('S-flow', f'{what}: {slot} started after {hist_children(s.hist)}')
    need(an, [(c,) for c in slots], bad, what)


def spec_seq(b, an, bad):
    cfg = b.cfg
    slots = sorted(cfg.children)
    names = cfg.kwargs.get('names') or [None] * len(slots)
    ctor = cfg.kwargs.get('constructor')
    cargs = cfg.kwargs.get('constructor_args')
    seq_like_starts(an, slots, bad, 'Seq')
    # binder-before-use (C05 a): at the start of every later child the name holds the
    # value of the element it was bound to
    for slot, s in an.starts:
        i = slots.index(slot)
        for j in range(i):
            if names[j] is not None and s.env.get(names[j]) != OK(slots[j]):
                bad('S-binder', f'Seq: name {names[j]!r} holds {fmt(s.env.get(names[j]))} at the start '
                                f'of {slot}, expected the value of element {slots[j]}')
    for s in an.exits:
        h = hist_children(s.hist)
        if all(ok for _, ok in h) and len(h) == len(slots):
            last = SUCC(slots[-1]) if slots else ENTRY
            kept = [OK(c) for c, n in zip(slots, names)
                    if cargs is None or n in set(cargs)]
            if ctor is None:
                want = ('LIST',) + tuple(kept)
                if not kept:
                    want = [want, ('LISTOF', frozenset())]
            else:
                want = ('CALL', ('VAR', ctor)) + tuple(kept)
            expect_exit(s, True, last, want, bad, 'Seq, all elements matched')
        else:
            if s.st is not False:
                bad('S-flow', f'Seq: exit after {h} with _status={s.st}')
            elif h and s.res != ERR(h[-1][0]):
                bad('S-value', f'Seq: failure exit returns {fmt(s.res)}, expected the error of {h[-1][0]}')
    if ctor is not None:
        # C10 a: span recorded on the fresh instance = (position at entry, position at exit)
        spans = [e for e in an.flow.events if e[0] == 'attrstore' and 'position_info' in e[1]]
        if not spans:
            bad('S-span', 'Seq with constructor: no span is recorded on the new instance')
        for kind, target, node, s, val in spans:
            last = SUCC(slots[-1]) if slots else ENTRY
            if val != ('TUPLE', ENTRY, last):
                bad('S-span', f'Seq with constructor: recorded span is {fmt(val)}, expected '
                              f'(ENTRY, {fmt(last)})')
            if not (isinstance(s.res, tuple) and s.res[:2] == ('CALL', ('VAR', ctor))):
                bad('S-span', f'Seq with constructor: span stored on {fmt(s.res)}, not on the new instance')
            if not target.startswith('_result.'):
                bad('S-span', f'Seq with constructor: span stored through {target}')


def spec_discard(b, an, bad):
    seq_like_starts(an, ['a', 'b'], bad, 'Discard')
    keep = 'b' if b.cfg.kwargs['discard_left'] else 'a'
    for s in an.exits:
        h = hist_children(s.hist)
        if h == [('a', True), ('b', True)]:
            expect_exit(s, True, SUCC('b'), OK(keep), bad,
                        f'Discard(discard_left={b.cfg.kwargs["discard_left"]})')
        elif s.st is not False:
            bad('S-flow', f'Discard: exit after {h} with _status={s.st}')


def spec_apply(b, an, bad):
    seq_like_starts(an, ['a', 'b'], bad, 'Apply')
    left = b.cfg.kwargs['apply_left']
    want = ('CALL', OK('a'), OK('b')) if left else ('CALL', OK('b'), OK('a'))
    for s in an.exits:
        h = hist_children(s.hist)
        if h == [('a', True), ('b', True)]:
            expect_exit(s, True, SUCC('b'), want, bad, f'Apply(apply_left={left})')
        elif s.st is not False:
            bad('S-flow', f'Apply: exit after {h} with _status={s.st}')


def spec_where(b, an, bad):
    seq_like_starts(an, ['e', 'p'], bad, 'Where')
    test = ('CALL', OK('p'), OK('e'))
    for s in an.exits:
        h = hist_children(s.hist)
        if h == [('e', True), ('p', True)]:
            ts = hist_tests(s.hist)
            if len(ts) != 1 or ts[0][1] != test:
                bad('S-value', f'Where: the decision is taken on {[fmt(t[1]) for t in ts]}, expected '
                               f'predicate(value) = {fmt(test)}')
                continue
            if ts[0][2]:
                expect_exit(s, True, SUCC('p'), OK('e'), bad, 'Where, predicate true')
            else:
                expect_exit(s, False, None, 'ERRSELF', bad, 'Where, predicate false')
        elif s.st is not False:
            bad('S-flow', f'Where: exit after {h} with _status={s.st}')
    if b.cfg.children['e'].AS is False or True:
        both = [s for s in an.exits if hist_children(s.hist) == [('e', True), ('p', True)]]
        if {bool(s.st) for s in both} != {True, False}:
            bad('S-flow', 'Where: predicate outcome does not decide between success and failure')


def spec_let(b, an, bad):
    seq_like_starts(an, ['e', 'b'], bad, 'Let')
    name = b.cfg.args[0]
    for slot, s in an.starts:
        if slot == 'b' and s.env.get(name) != OK('e'):
            bad('S-binder', f'Let: {name!r} holds {fmt(s.env.get(name))} when the body starts, '
                            f'expected the value of the bound expression')
    before = {fmt(s.env.get(name)) for slot, s in an.starts if slot == 'e'}
    for s in an.exits:
        h = hist_children(s.hist)
        if h == [('e', True), ('b', True)]:
            expect_exit(s, True, SUCC('b'), OK('b'), bad, 'Let')
        elif s.st is not False:
            bad('S-flow', f'Let: exit after {h} with _status={s.st}')
        if h == [('e', False)] and fmt(s.env.get(name)) not in before:
            # all bound names of a rule body are locals of one Python function: a name bound although its
            # expression failed overwrites an outer binding of the same name (parameter, enclosing let,
            # earlier field) for the alternatives tried next
            bad('S-binder', f'Let: the bound expression failed, yet {name!r} was assigned ({fmt(s.env.get(name))}): an '
                            f'outer binding of the same name is overwritten by an abandoned attempt')


def list_elems(t):
    if isinstance(t, tuple) and t[:1] == ('LISTOF',):
        return t[1]
    return None


def spec_list(b, an, bad):
    kw = b.cfg.kwargs
    mi, ma = kw.get('min_len'), kw.get('max_len')
    zero_max = ma in (0, '0')
    need_min = mi not in (None, 0, '0')
    for slot, s in an.starts:
        if zero_max:
            bad('S-list-max', 'List with max_len 0 attempts an element')
        if s.pos not in (ENTRY, SUCC('e')):
            bad('S-flow', f'List: element starts at {fmt(s.pos)}')
    if not zero_max:
        need(an, [('e',)], bad, 'List')
    for s in an.exits:
        if not s.st:
            continue
        if s.pos not in (ENTRY, SUCC('e')):
            bad('S-flow', f'List: success exit at {fmt(s.pos)}')
        el = list_elems(s.res)
        if el is None or not el <= {OK('e')}:
            bad('S-value', f'List: success exit returns {fmt(s.res)}, expected the list of element values')
        else:
            if (s.pos == ENTRY) != (len(el) == 0):
                bad('S-flow', f'List: success exit at {fmt(s.pos)} with result {fmt(s.res)} '
                              f'(consumed span and collected elements disagree)')
        if need_min and not zero_max and not s.bl.get('#minok'):
            bad('S-list-min', f'List(min_len={mi!r}): a success exit is reachable without the '
                              f'lower-bound test having been true')
    if not b.AS and not any(s.st is False for s in an.exits):
        pass


def spec_sep(b, an, bad):
    kw = b.cfg.kwargs
    ds, at, ae, rs = (kw['discard_separators'], kw['allow_trailer'], kw['allow_empty'],
                      kw['require_separator'])
    ch = b.cfg.children
    for slot, s in an.starts:
        ok = {'e': {ENTRY, SUCC('s')}, 's': {SUCC('e')}}[slot]
        if s.pos not in ok:
            bad('S-flow', f'Sep: {slot} starts at {fmt(s.pos)}, expected {fmt_set(ok)}')
    need(an, [('e',), ('s',)], bad, 'Sep')
    succ_pos = set()
    for s in an.exits:
        if not s.st:
            continue
        succ_pos.add(s.pos)
        allowed = {ENTRY, SUCC('e')} | ({SUCC('s')} if at else set())
        if s.pos not in allowed:
            bad('S-sep-trailer', f'Sep(allow_trailer={at}): success exit at {fmt(s.pos)}, allowed '
                                 f'{fmt_set(allowed)}')
        el = list_elems(s.res)
        okset = {OK('e')} | (set() if ds else {OK('s')})
        if el is None or not el <= okset:
            bad('S-value', f'Sep(discard_separators={ds}): success exit returns {fmt(s.res)}')
            continue
        if (s.pos == ENTRY) != (len(el) == 0):
            bad('S-flow', f'Sep: success exit at {fmt(s.pos)} with result {fmt(s.res)}')
        if not ae and len(el) == 0:
            bad('S-sep-empty', 'Sep(allow_empty=False): success exit with an empty result')
        if rs and not s.bl.get('#ok:s') and not (ae and len(el) == 0):
            bad('S-sep-require', 'Sep(require_separator=True): success exit without any separator')
        last = s.bl.get('#last')
        if not ds and not at and last == 's':
            bad('S-sep-trailer', 'Sep(discard_separators=False, allow_trailer=False): the result may '
                                 'end with a separator that was not consumed')
        if isinstance(last, str) and last.startswith('popped:') and last != 'popped:s':
            bad('S-value', f'Sep: an element is removed from the result ({last})')
        if s.pos == SUCC('s') and not ds and at and last != 's':
            bad('S-value', 'Sep(discard_separators=False, allow_trailer=True): trailing separator '
                           'consumed but not kept')
        if s.pos == SUCC('e') and last not in ('e', 'popped:s'):
            bad('S-value', f'Sep: exit right after an element but the result ends with {last}')
    can_fail_e = not ch['e'].AS
    if at and can_fail_e and SUCC('s') not in succ_pos:
        bad('S-sep-trailer', 'Sep(allow_trailer=True): a trailing separator is never consumed')
    if not ds and not any(OK('s') in (list_elems(s.res) or ()) for s in an.exits if s.st):
        if can_fail_e or not ch['s'].AS:
            bad('S-value', 'Sep(discard_separators=False): separators never reach the result')


def spec_skip(b, an, bad):
    for slot, s in an.starts:
        if not (s.pos == ENTRY or (isinstance(s.pos, tuple) and s.pos[0] == 'SUCC')):
            bad('S-flow', f'Skip: {slot} starts at {fmt(s.pos)}')
    need(an, [(c,) for c in b.cfg.children], bad, 'Skip')
    for s in an.exits:
        if s.st is not True:
            bad('S-flow', f'Skip: exit with _status={s.st}')
            continue
        if not (s.pos == ENTRY or (isinstance(s.pos, tuple) and s.pos[0] == 'SUCC')):
            bad('S-flow', f'Skip: exit at {fmt(s.pos)}')
        if s.res != NONE:
            bad('S-value', f'Skip: result {fmt(s.res)}, expected None')
        if s.bl.get('#restart'):
            bad('S-skip-restart', 'Skip: exit reachable directly after a successful pattern '
                                  '(the run of ignorable text is not exhausted)')


def spec_optable(b, an, bad):
    ch = b.cfg.children
    a_starts = {ENTRY, SUCC('pre'), SUCC('inf')}
    b_starts = {SUCC('opd'), SUCC('post')}
    for slot, s in an.starts:
        ok = a_starts if slot in ('pre', 'opd') else b_starts
        if s.pos not in ok:
            bad('S-flow', f'OperatorTable: {slot} starts at {fmt(s.pos)}, expected {fmt_set(ok)}')
    need(an, [(c,) for c in ch], bad, 'OperatorTable')
    for s in an.exits:
        if s.st is True:
            if s.pos not in b_starts:
                bad('S-optable-end', f'OperatorTable: success exit at {fmt(s.pos)}: the expression must '
                                     f'end after an operand or a postfix operator (an operator that is '
                                     f'not followed by an operand is left unconsumed)')
            if s.emp and any(k.startswith('_operand') and v == 'E' for k, v in s.emp.items()):
                bad('S-flow', 'OperatorTable: success exit with an empty operand stack')
            if s.bl.get('#uncommitted') and getattr(an.ghost, 'marker', None):
                bad('S-optable-commit', f'OperatorTable: a prefix operator was consumed and pushed, but the commit '
                                        f'marker `{an.ghost.marker}` was not advanced before the expression ended: the '
                                        f'final truncation of the operator stack drops it (the operator is consumed '
                                        f'but missing from the tree)')
        elif s.st is False:
            pass


# ---------------------------------------------------------------- leaves
_leaf = {}


def leaf_env(b):
    if not _leaf:
        from . import load
        _leaf['CALL'] = ('CONST', repr(load.call_constant()))
        utils = b.prog.load('sourcer.expressions.utils')
        fn = utils.env.get('implementation_name')
        if fn is None:
            raise AnalysisError('anchor utils.implementation_name vanished')
        _leaf['ign'] = b.it.call(fn, ['_ignored'], {})
    return _leaf


def ign_term(b, end):
    le = leaf_env(b)
    callee = ('ATTR', ('VAR', '_ctx'), le['ign']) if b.cfg.ctx else ('VAR', le['ign'])
    return ('SUB', ('YIELD', ('TUPLE', le['CALL'], callee, end)), ('CONST', '2'))


def const(v):
    return ('CONST', repr(v))


def lit_exits(b, an, bad, what, end_ok, value_ok, test_ok):
    """common shape of the three literal matchers"""
    sk = b.cfg.post.get('skip_ignored')
    n_ok = n_fail = 0
    for s in an.exits:
        ts = hist_tests(s.hist)
        if len(ts) != 1:
            bad('S-literal', f'{what}: {len(ts)} decisions on the path to an exit, expected exactly one match test')
            continue
        test, outcome = ts[0][1], ts[0][2]
        verdict = test_ok(test)
        if not verdict:
            bad('S-literal', f'{what}: the match test is {fmt(test)[:200]}, which is not one of the '
                             f'accepted matcher idioms for this literal')
            continue
        if verdict == 'neg':
            outcome = not outcome       # the test is the negation of "matched" (`m is None`)
        if outcome:
            n_ok += 1
            if s.st is not True:
                bad('S-literal', f'{what}: match test true but _status={s.st}')
                continue
            ends = [e for e in end_ok]
            want = [ign_term(b, e) for e in ends] if sk else ends
            if s.pos not in want:
                bad('S-literal-end' if not sk or any(s.pos == e for e in ends) is False else 'S-literal-end',
                    f'{what}(skip_ignored={sk}): success exit at {fmt(s.pos)[:200]}, expected '
                    f'{" or ".join(fmt(w)[:120] for w in want)}')
            if not value_ok(s.res):
                bad('S-value', f'{what}: success value {fmt(s.res)[:120]}')
        else:
            n_fail += 1
            expect_exit(s, False, ENTRY, 'ERRSELF', bad, f'{what}, no match', rule='S-literal')
    if n_ok == 0 or n_fail == 0:
        bad('S-literal', f'{what}: the matcher does not have both a success and a failure exit')
    if not sk and an.flow.requests:
        bad('S-literal', f'{what}(skip_ignored=False) yields a request')
    if sk:
        for tag, callee, pos, s, node in an.flow.requests:
            if s.st is False:
                bad('S-literal', f'{what}: ignored text is skipped on a failure path')


def spec_str(b, an, bad):
    v = b.cfg.args[0]
    if not v:
        for s in an.exits:
            expect_exit(s, True, ENTRY, None, bad, 'Str, empty literal', rule='S-literal')
            if s.res not in (const(''), const(b'')):
                bad('S-value', f'Str, empty literal: value {fmt(s.res)}')
            elif s.res != const(v):
                bad('S-value', f'Str({v!r}): value is {fmt(s.res)}, expected {v!r} '
                               f'(text and bytes grammars return their own kind of empty string)')
        return
    n = ('CONST', repr(len(v)))
    ends = [('OP', 'Add', ENTRY, n), ('OP', 'Add', n, ENTRY)]

    def test_ok(t):
        for e in ends:
            sl1 = ('SUB', 'TEXT', ('CALL', ('VAR', 'slice'), ENTRY, e, NONE))
            sl2 = ('SUB', 'TEXT', ('SLICE', ENTRY, e, NONE))
            for sl in (sl1, sl2):
                if t in (('CMP', ('Eq',), sl, const(v)), ('CMP', ('Eq',), const(v), sl)):
                    return True
        if t == ('CALL', ('ATTR', 'TEXT', 'startswith'), const(v), ENTRY):
            return True
        return False
    lit_exits(b, an, bad, f'Str({v!r})', ends, lambda r: r == const(v), test_ok)


def spec_regex(b, an, bad):
    pat = b.cfg.args[0]
    ic = b.cfg.kwargs.get('ignore_case')
    flag_terms = [('VAR', '_IGNORECASE')] if ic else [const(0)]

    def matcher_ok(t):
        # <compiled>.match(_text, _pos) with the pattern compiled from the literal's own text
        if not (isinstance(t, tuple) and t[:1] == ('CALL',) and len(t) == 4 and t[2:] == ('TEXT', ENTRY)):
            return False
        m = t[1]
        if not (isinstance(m, tuple) and m[0] == 'ATTR' and m[2] == 'match'):
            return False
        c = m[1]
        if not (isinstance(c, tuple) and c[:2] == ('CALL', ('VAR', '_compile_re')) and c[2] == const(pat)):
            return False
        rest = c[3:]
        if ic:
            return rest in ((('KW', 'flags', ('VAR', '_IGNORECASE')),), (('VAR', '_IGNORECASE'),))
        return rest in ((), (('KW', 'flags', const(0)),), (const(0),))

    holder = {}

    def unwrap(t):
        """`m`, `m is not None`, `m is None` -> (m, polarity)"""
        if isinstance(t, tuple) and t[:1] == ('CMP',) and len(t) == 4 and t[1] in (('IsNot',), ('Is',)) \
                and NONE in (t[2], t[3]):
            return (t[2] if t[3] == NONE else t[3]), t[1] == ('IsNot',)
        return t, True

    def test_ok(t):
        m, pos = unwrap(t)
        if matcher_ok(m):
            holder['m'] = m
            return True if pos else 'neg'
        return False

    # the end/value terms depend on the match term; validate after the test was seen
    exits = an.exits
    for s in exits:
        ts = hist_tests(s.hist)
        if len(ts) == 1 and matcher_ok(unwrap(ts[0][1])[0]):
            holder['m'] = unwrap(ts[0][1])[0]
    m = holder.get('m')
    ends = [('CALL', ('ATTR', m, 'end'))] if m else []
    vals = [('CALL', ('ATTR', m, 'group'), const(0)), ('CALL', ('ATTR', m, 'group')),
            ('SUB', m, const(0))] if m else []
    lit_exits(b, an, bad, f'Regex({pat!r}, ignore_case={ic})', ends, lambda r: r in vals, test_ok)
    # compiled once, at module level
    root = b.out._root
    pre = [str(x) for x in root if '_compile_re' in str(x)]
    if not pre:
        bad('S-literal', 'Regex: the pattern is not compiled at module level')


def spec_byte(b, an, bad):
    v = b.cfg.args[0]
    one = const(1)
    ends = [('OP', 'Add', ENTRY, one), ('OP', 'Add', one, ENTRY)]
    ln = ('CALL', ('VAR', 'len'), 'TEXT')
    guards = [('CMP', ('Lt',), ENTRY, ln), ('CMP', ('Gt',), ln, ENTRY)]
    eqs = [('CMP', ('Eq',), ('SUB', 'TEXT', ENTRY), const(v)), ('CMP', ('Eq',), const(v), ('SUB', 'TEXT', ENTRY))]

    def test_ok(t):
        if isinstance(t, tuple) and t[:2] == ('BOOL', 'And') and len(t) == 4:
            return t[2] in guards and t[3] in eqs     # guard must come first (short circuit)
        sl = [('SUB', 'TEXT', ('CALL', ('VAR', 'slice'), ENTRY, e, NONE)) for e in ends]
        return False
    lit_exits(b, an, bad, f'Byte({v:#x})', ends, lambda r: r == const(v), test_ok)


def spec_backtrack(b, an, bad):
    n = int(b.cfg.args[0])
    for s in an.exits:
        ts = hist_tests(s.hist)
        if len(ts) != 1 or ts[0][1] not in (('CMP', ('GtE',), ENTRY, const(n)), ('CMP', ('LtE',), const(n), ENTRY)):
            bad('S-flow', f'Backtrack({n}): guard is {[fmt(t[1]) for t in ts]}, expected _pos >= {n}')
            continue
        if ts[0][2]:
            expect_exit(s, True, ('OP', 'Sub', ENTRY, const(n)), NONE, bad, f'Backtrack({n})')
        else:
            expect_exit(s, False, ENTRY, 'ERRSELF', bad, f'Backtrack({n}) at start of input')
    if len(an.exits) != 2:
        bad('S-flow', f'Backtrack({n}): expected a guarded success and a failure exit')


def spec_fail(b, an, bad):
    for s in an.exits:
        expect_exit(s, False, ENTRY, 'ERRSELF', bad, 'Fail')


def spec_pyexpr(b, an, bad):
    for s in an.exits:
        expect_exit(s, True, ENTRY, None, bad, 'PythonExpression')


def spec_ref(b, an, bad):
    le = leaf_env(b)
    post = b.cfg.post
    name = post.get('_resolved') or b.cfg.args[0]
    local = post.get('is_local')
    want_callee = ('VAR', name)
    parts = name.split('.')
    t = ('VAR', parts[0])
    for p in parts[1:]:
        t = ('ATTR', t, p)
    want_callee = t
    if b.cfg.ctx and not local and parts[0] != '_super_ctx':
        # late binding: non-local references go through the context object (`super.R` is lexical:
        # rooted at the module-global _super_ctx)
        t = ('VAR', '_ctx')
        for p in parts:
            t = ('ATTR', t, p)
        want_ctx = t
    else:
        want_ctx = want_callee
    if len(an.flow.requests) != 1:
        bad('S-ref', f'Ref: {len(an.flow.requests)} requests, expected one')
    for tag, callee, pos, s, node in an.flow.requests:
        if tag != le['CALL']:
            bad('S-ref', f'Ref: request tag {fmt(tag)}, expected the CALL constant {fmt(le["CALL"])}')
        if pos != ENTRY:
            bad('S-ref', f'Ref: request position {fmt(pos)}')
        b.ref_callee = callee
        b.ref_want = want_ctx
    for s in an.exits:
        if s.st is True:
            expect_exit(s, True, SUCC('REQ'), OK('REQ'), bad, 'Ref')
        else:
            expect_exit(s, False, None, ERR('REQ'), bad, 'Ref')


SPECS = {
    'Str': spec_str, 'Regex': spec_regex, 'Byte': spec_byte, 'Backtrack': spec_backtrack,
    'Fail': spec_fail, 'PythonExpression': spec_pyexpr, 'Ref': spec_ref,
    'Opt': spec_opt, 'Expect': spec_expect, 'ExpectNot': spec_expectnot,
    'Choice': spec_choice, 'Longest': spec_longest, 'Seq': spec_seq,
    'Discard': spec_discard, 'Apply': spec_apply, 'Where': spec_where, 'Let': spec_let,
    'List': spec_list, 'Sep': spec_sep, 'Skip': spec_skip, 'OperatorTable': spec_optable,
}
