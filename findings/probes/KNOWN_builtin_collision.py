from sourcer import Grammar
g = Grammar('class P { a: "x" }\nstart = list\nlist = P*')
r = g.parse('xx'); print(r, [n for n in g.visit(r)])   # TypeError / wrong: the runtime's `list` is the user's rule
