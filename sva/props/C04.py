"""C04 - ignored patterns: structural half (who skips, where, what is skipped)."""
from .. import e1run, routes
from . import shared


def run(rep, tier):
    rep.explanation = (
        'Module-level partial evaluation of translator.generate_source_code on route grammars with '
        'named / anonymous / several ignore declarations (declared before or after the rules, start '
        'rule plain or class, templates with positional and keyword arguments), both conventions: '
        '(a) after translation every literal object reachable from any rule - ignored rules, template '
        'arguments incl. keyword arguments, class members - carries skip_ignored, and none does in a '
        'grammar without ignore declarations; only literal classes carry the flag; (b) the emitted '
        'start function begins with a request of the ignore rule before it looks at the text; (c) the '
        'synthetic rule requests exactly the ignored rules, and Skip loops until no pattern makes '
        'progress (E1); (d) every literal skeleton issues the ignore request on its success path only, '
        'with its own end as argument, iff the flag is set (E1 literal specs); (e) who-may-call: '
        'skip_ignored is referenced only from the literal matchers, the ignore rule\'s name is built '
        'only in skip_ignored and generate_source_code.')
    rep.not_decided += ['lengthening a run of ignorable text changes no value (a statement about pairs of inputs)']
    for rid, txt in [
        ('IGN-every-literal', 'with ignore declarations every literal object carries skip_ignored after translation'),
        ('IGN-only-with-ignore', 'without ignore declarations no literal skips and nobody requests the ignore rule'),
        ('IGN-only-literals', 'only literal classes carry skip_ignored'),
        ('IGN-start-prefix', 'the start function first requests the ignore rule, at its entry position'),
        ('IGN-rule', 'the synthetic ignore rule requests exactly the ignored rules'),
        ('IGN-who-may-call', 'skip_ignored / the ignore rule name are referenced only from the allowed sites'),
        ('ROUTE-raises', 'the translator compiles every ignore route without raising'),
    ]:
        rep.rule(rid, txt)
    shared.describe_rules(rep, only=('S-literal', 'S-literal-end', 'S-skip-restart', 'G1-no-trace', 'S-flow'))
    found, stats, nmods = routes.run(rep, 'C04', ['IGN-', 'WIRE-inherited', 'WIRE-super'],
                                     label_filter=lambda msg: True)
    rep.floor('route modules emitted', nmods, 26)
    rep.floor('literal objects examined', stats['literals'], 80)
    rep.floor('modules with ignore declarations', stats['ignore_modules'], 14)
    rep.floor('skip_ignored call sites', stats['skip_calls'], 3)
    total = e1run.run(rep, ['Skip', 'Str', 'Regex', 'Byte'], tier,
                      select=lambda f: f['rule'] in ('S-literal', 'S-literal-end', 'S-skip-restart', 'S-flow',
                                                     'G1-no-trace', 'G2-as-sound', 'G2-cp-sound', 'G3-protocol'))
    rep.floor('configurations of Skip', total.get('Skip', 0), 78)
    from .. import controls
    controls.e1_controls(rep)
