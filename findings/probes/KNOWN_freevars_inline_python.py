from sourcer import Grammar
g = Grammar('T(p) = p << "!"\nU(n) = T(["a", `n + 1`])\nstart = U(`2`)')
print(g.parse('a!'))       # NameError: name 'n' is not defined
