"""C07 - packrat guarantee: path rules on the trampoline, in both conventions and on the
copy embedded in the shipped sourcer/parser.py; plus "every rule invocation is a request"."""
import ast

from ..common import Finding, AnalysisError
from .. import load, trampoline
from .. import paths as P


def subjects():
    from .. import routes
    return [(what, tree, None, rel) for what, tree, rel in routes.runtime_subjects()]


def run(rep, tier):
    rep.explanation = (
        'All acyclic paths through the driver loop of the trampoline are enumerated symbolically '
        '(terms over the parameters; objects found by role: request = value returned by .send, '
        'stack = list whose top supplies the generator, memo = mapping tested for membership of the '
        'request). Rules: a generator is created only at the initial start and on the memo-miss '
        'branch; on the completion branch the result is stored in the memo under the key taken '
        'from the stack top (the request tuple that started the generator, which holds tag, '
        'function and position); a hit replays the stored object itself; the memo is one fresh '
        'dict per call, never rebound, cleared or shared; the request tag CALL cannot be mistaken '
        'for a status (not in {0,1,True,False}); a new generator is first sent None. Emission side: '
        'Ref and the ignore-skipping literals start rules only through `yield (CALL, f, pos)` '
        'requests (E1 leaf specs). Together: body evaluations <= distinct (function, position) keys.')
    rep.not_decided += ['running time']
    rep.assumptions += ['dict and tuple hashing/equality of CPython (function identity + int position)']
    call_const = load.call_constant()
    rep.rule('C07-tag', 'constants.CALL is a literal outside {0, 1, True, False}')
    if call_const in (0, 1, True, False) or isinstance(call_const, (bool, float)) or call_const is None:
        rep.add(Finding('C07-tag', 'constants.CALL', '', f'CALL={call_const!r} can be mistaken for a status',
                        'sourcer/expressions/constants.py'))
    rep.oblige(call_const not in (0, 1))
    for rid, txt in [
        ('C07-memo-store', 'completion branch: memo[key-from-stack-top] = completed result'),
        ('C07-memo-lookup', 'a request is tested against the memo before a generator is started'),
        ('C07-replay', 'a hit replays the stored object itself; completion hands the result to the parent'),
        ('C07-gen-create', 'generators are created only for the initial start and on a memo miss, '
                           'from request[1] at request[2], and are first sent None'),
        ('C07-memo-key', 'the key pushed with a new generator is the request tuple itself'),
        ('C07-memo-local', 'the memo is a fresh local dict created once per call, never rebound/cleared'),
        ('C07-stack', 'stack discipline: one pop on completion, one push on miss'),
    ]:
        rep.rule(rid, txt)
    for what, tree, ctx, rel in subjects():
        name, fn, call = trampoline.find_trampoline(tree, what)
        uses_ctx = bool(fn.args.args and fn.args.args[0].arg == '_ctx')
        if ctx is None:
            # the CALL tag inside a generated parser is whatever it was generated with
            cc = None
            for n in ast.walk(fn):
                if isinstance(n, ast.Compare) and isinstance(n.left, ast.Subscript) \
                        and isinstance(n.comparators[0], ast.Constant):
                    cc = n.comparators[0].value
            cconst = cc if cc is not None else call_const
        else:
            cconst = call_const
        roles, bad, stats = trampoline.analyse(fn, cconst, bool(uses_ctx), what)
        rep.count('driver functions analysed')
        rep.count('paths through the driver loop', stats['loop_paths'])
        rep.count('paths through the driver', stats['paths'])
        rep.sample({'subject': what, 'driver': name,
                    'loop paths': [bp.describe()[:300] for bp in roles.body]})
        nbad = len({rule for rule, _ in bad})
        rep.obligations += 7
        rep.discharged += 7 - min(7, nbad)
        for rule, msg in bad:
            rep.add(Finding(rule, f'{rel}:{name}', f'ctx={int(uses_ctx)}', msg, f'{rel}:{name} (line {fn.lineno})',
                            {'function': ast.unparse(fn)}))
    rep.floor('driver functions analysed', rep.instances.get('driver functions analysed', 0), 3)
    # emission side: every rule invocation is a request (E1 leaf specs for Ref / literals)
    from .. import e1run
    total = e1run.run(rep, ['Ref', 'Str', 'Regex', 'Byte'], tier,
                      select=lambda f: f['rule'] in ('S-ref', 'S-literal', 'G0-syntax'))
    rep.floor('configurations of Ref', total.get('Ref', 0), 12)
    # every rule invocation is a request to the driver (the only place a rule body starts): no
    # emitted rule function or helper calls an implementation function directly (also not via
    # `yield from`), on any route (alias rules, templates, classes, sub-grammars, spilled helpers)
    rep.rule('C07-direct-call', 'no emitted function calls a rule implementation directly')
    from . import C17
    C17.rule_calls_are_requests(rep, rule='C07-direct-call')
    rep.rule('C07-call-key', '`R()` on a parameterless rule requests the rule itself (same memo key as `R`)')
    from .. import routes
    routes.run(rep, 'C07', ['C07-call-key'])
    # a rule handed to a template as an argument travels as the rule function itself: `q` inside the template
    # then requests the same callable - the same memo key - as a plain reference to the rule (Ref skeletons,
    # both conventions; rule shared with C13, where the same form makes the argument late-bound)
    rep.rule('LATE-bound', 'a parameterless rule passed as a template argument is emitted as the callee a plain '
                           'reference requests (same memo key), not wrapped in a call object')
    from . import C13
    C13.late_binding(rep)
    from .. import controls
    controls.trampoline_controls(rep)
