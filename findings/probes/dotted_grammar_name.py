from sourcer import Grammar
import sys, importlib
g = Grammar('grammar probe_f9_pkg.inner\nstart = "a"')
ok = sys.modules.get('probe_f9_pkg.inner') is g
print('installed:', ok)
try:
    h = Grammar('grammar probe_f9_child extends probe_f9_pkg.inner\nX = "b"')
    print(h.parse('a'))
except Exception as e:
    print('ESCAPED', type(e).__name__, e); ok = False
sys.exit(0 if ok else 1)
