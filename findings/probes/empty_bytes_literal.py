from sourcer import Grammar
g = Grammar('start = b""')
print(repr(g.parse(b'')))
g = Grammar('start = ""')
print(repr(g.parse('')))
