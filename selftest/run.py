#!/usr/bin/env python3
"""Self-test of the checkers: one-edit variants of /repo built in a scratch directory
(outside /repo and /verif, removed after use).  `break` variants must make the named
check exit 1 with a VIOLATION; `benign` variants must leave it at exit 0.

usage: selftest/run.py [--only ID-substring] [--prop Cxx] [-j N]
"""
import argparse, json, os, shutil, subprocess, sys, tempfile, importlib.util
from concurrent.futures import ThreadPoolExecutor

HERE = os.path.dirname(os.path.abspath(__file__))
VERIF = os.path.dirname(HERE)
REPO = os.environ.get('VERIF_REPO', '/repo')


# refactorings that are behaviour-preserving for every property but the listed ones (DESIGN.md 13.2):
# G2 zips the two position tables with a bare `zip(...)` in the runtime, which a rule named `zip`
# would capture - C20 must report it, the other eighteen checks must stay silent
BENIGN_EXCEPT = {'G2': {'C20'}, 'P3': {'C20'}}      # P3: a bare `range(...)`
# refactorings that leave the family of implementation shapes the E2 rules read (DESIGN.md 13.3): the listed
# checks refuse them - exit 2 with the representation named, never a finding; all other checks stay silent
REFUSED = {
    'P1': {'C05', 'C07', 'C08', 'C10', 'C18'},      # driver with two parallel lists
    'P2': {'C08', 'C09', 'C10', 'C18'},             # conversion loop over a local lazy generator
    'P3': {'C09', 'C10'},                           # line tables filled in bulk by run length
    'P4': {'C05', 'C07', 'C08', 'C10', 'C18'},      # driver with an inner resume loop
    'Q1': {'C15', 'C17'},                           # traverse work list of plain tuples
    'Q2': {'C08', 'C10', 'C15', 'C17'},             # visit with a rotated loop
    'Q3': {'C16'},                                  # _transform stages the transformed children
}


def load_mutants():
    spec = importlib.util.spec_from_file_location('mutants', os.path.join(HERE, 'mutants.py'))
    m = importlib.util.module_from_spec(spec)
    spec.loader.exec_module(m)
    muts = list(m.MUTANTS)
    # patch-based variants: the changes seeded by independent sub-agents (must be reported by the
    # check of their property) and their behaviour-preserving refactorings (must stay silent)
    sd = os.path.join(VERIF, 'seeded')
    for name in sorted(os.listdir(sd)):
        meta, patch = os.path.join(sd, name, 'meta.json'), os.path.join(sd, name, 'patch.diff')
        if os.path.exists(meta) and os.path.exists(patch):
            mj = json.load(open(meta))
            if mj.get('obsolete'):
                continue        # no longer a breaking change (a later repo fix made it harmless)
            if mj.get('missed'):
                continue        # recorded as not detected (DESIGN section 14, round 11): not an expectation of the self-test
            muts.append({'id': 'seeded-' + name, 'kind': 'break', 'props': [mj.get('check') or name[:3]],
                         'edits': [], 'patch': patch})
    bd = os.path.join(sd, 'benign')
    all_props = [c['property_id'] for c in json.load(open(os.path.join(VERIF, 'MANIFEST.json')))['checks']]
    for name in sorted(os.listdir(bd)):
        if name.endswith('.diff'):
            hit = BENIGN_EXCEPT.get(name[:-5], set())
            refused = REFUSED.get(name[:-5], set())
            muts.append({'id': 'refactor-' + name[:-5], 'kind': 'benign',
                         'props': [p for p in all_props if p not in hit and p not in refused],
                         'edits': [], 'patch': os.path.join(bd, name)})
            if refused:
                muts.append({'id': 'refactor-' + name[:-5] + '-refused', 'kind': 'refuse', 'props': sorted(refused),
                             'edits': [], 'patch': os.path.join(bd, name)})
            if hit:
                muts.append({'id': 'refactor-' + name[:-5] + '-hazard', 'kind': 'break', 'props': sorted(hit),
                             'edits': [], 'patch': os.path.join(bd, name)})
    return muts


def run_one(mut, tier):
    d = tempfile.mkdtemp(prefix='sva-selftest-')
    try:
        for sub in ('sourcer', 'grammar.txt', 'generate_parser.py'):
            src = os.path.join(REPO, sub)
            dst = os.path.join(d, sub)
            if os.path.isdir(src):
                shutil.copytree(src, dst, ignore=shutil.ignore_patterns('__pycache__'))
            else:
                shutil.copy(src, dst)
        if mut.get('patch'):
            r = subprocess.run(['git', 'apply', '--unsafe-paths', '--directory', d, mut['patch']], cwd='/',
                               capture_output=True, text=True)
            if r.returncode:
                r = subprocess.run(['patch', '-p1', '-s', '-d', d, '-i', mut['patch']], capture_output=True, text=True)
                if r.returncode:
                    return mut, 'NOT-APPLICABLE', 'patch does not apply: ' + (r.stdout + r.stderr)[-200:], {}
        for rel, old, new in mut['edits']:
            p = os.path.join(d, rel)
            s = open(p).read()
            if s.count(old) != 1:
                return mut, 'NOT-APPLICABLE', f'{rel}: pattern occurs {s.count(old)} times', {}
            open(p, 'w').write(s.replace(old, new))
            try:
                compile(open(p).read(), p, 'exec')
            except SyntaxError as e:
                return mut, 'NOT-APPLICABLE', f'variant does not compile: {e}', {}
        res = {}
        for pid in mut['props']:
            env = dict(os.environ, VERIF_REPO=d, VERIF_EVIDENCE_DIR=os.path.join(d, 'evidence'),
                       VERIF_REPLAY_DIR=os.path.join(d, 'replay'), VERIF_JOBS='2')
            r = subprocess.run([os.path.join(VERIF, 'check'), pid, '--tier', tier],
                               capture_output=True, text=True, env=env, timeout=1800)
            res[pid] = (r.returncode, r.stdout)
        want = {'break': 1, 'refuse': 2}.get(mut['kind'], 0)
        ok = all(rc == want for rc, _ in res.values())
        detail = ''
        for pid, (rc, out) in res.items():
            if rc != want:
                lines = [l for l in out.splitlines() if l.startswith(('FINDING', 'ANALYSIS-ERROR', 'VIOLATION'))]
                detail += f' {pid}: exit {rc} ' + ' | '.join(lines[:3])[:400]
            elif want == 1:
                lines = [l for l in out.splitlines() if l.startswith('FINDING')]
                detail += f' {pid}: ' + (lines[0][:160] if lines else '')
        return mut, 'PASS' if ok else 'FAIL', detail, res
    finally:
        shutil.rmtree(d, ignore_errors=True)


def main():
    ap = argparse.ArgumentParser()
    ap.add_argument('--only')
    ap.add_argument('--prop')
    ap.add_argument('--tier', default='quick')
    ap.add_argument('-j', type=int, default=8)
    ap.add_argument('-v', action='store_true')
    a = ap.parse_args()
    muts = load_mutants()
    if a.only:
        muts = [m for m in muts if a.only in m['id']]
    if a.prop:
        muts = [dict(m, props=[a.prop]) for m in muts if a.prop in m['props']]
    fails = 0
    with ThreadPoolExecutor(a.j) as ex:
        for mut, status, detail, res in ex.map(lambda m: run_one(m, a.tier), muts):
            if status != 'PASS':
                fails += 1
            if status != 'PASS' or a.v:
                print(f'{status:5} {mut["kind"]:6} {mut["id"]}: {detail}')
            else:
                print(f'{status:5} {mut["kind"]:6} {mut["id"]}')
    print(f'{len(muts)} variants, {fails} not as expected')
    return 1 if fails else 0


if __name__ == '__main__':
    sys.exit(main())
