"""One-edit variants of /repo.  kind 'break': the listed checks must report a VIOLATION;
kind 'benign': they must stay silent.  Edits are (relative file, old text, new text);
the old text must occur exactly once."""

EX = 'sourcer/expressions/'
TR = 'sourcer/translator.py'

MUTANTS = []


def M(id, kind, props, *edits):
    MUTANTS.append({'id': id, 'kind': kind, 'props': props, 'edits': list(edits)})


# ---------------------------------------------------------------- C01
M('opt-no-restore', 'break', ['C01'],
  (EX + 'opt.py', "            out += POS << backtrack\n            out += RESULT << None", "            out += RESULT << None"))
M('opt-no-none', 'break', ['C01'],
  (EX + 'opt.py', "            out += RESULT << None\n", ""))
M('choice-restore-wrong-flag', 'break', ['C01'],
  (EX + 'choice.py', "if i + 1 < len(self.exprs) and expr.can_partially_succeed():", "if i + 1 < len(self.exprs) and self.exprs[i + 1].can_partially_succeed():"))
M('choice-any-to-all-backtrack', 'break', ['C01'],
  (EX + 'choice.py', "needs_backtrack = any(x.can_partially_succeed() for x in self.exprs)", "needs_backtrack = all(x.can_partially_succeed() for x in self.exprs)"))
M('choice-cp-flag-all', 'break', ['C01'],
  (EX + 'choice.py', "        return not self.always_succeeds() and (\n            any(x.can_partially_succeed() for x in self.exprs)\n        )\n\n    def _compile", "        return not self.always_succeeds() and (\n            all(x.can_partially_succeed() for x in self.exprs)\n        )\n\n    def _compile"))
# not benign: Choice._compile itself consults always_succeeds() to decide whether the
# failure epilogue is emitted, so the 'conservative' flag overwrites a success
M('choice-as-flag-all', 'break', ['C01'],
  (EX + 'choice.py', "        return any(x.always_succeeds() for x in self.exprs)", "        return all(x.always_succeeds() for x in self.exprs)"))
M('choice-skip-last-restore-benign', 'benign', ['C01'],
  (EX + 'choice.py', "if i + 1 < len(self.exprs) and expr.can_partially_succeed():", "if expr.can_partially_succeed():"))
M('expectnot-restore-one-branch', 'break', ['C01'],
  (EX + 'expect.py', "        self.expr.compile(out, flags)\n        out += POS << backtrack\n\n        with out.IF(STATUS):\n            out += STATUS << False",
   "        self.expr.compile(out, flags)\n\n        with out.IF(STATUS):\n            out += POS << backtrack\n            out += STATUS << False"))
M('expect-no-restore', 'break', ['C01'],
  (EX + 'expect.py', "        with utils.if_succeeds(out, flags, self.expr):\n            out += POS << backtrack", "        with utils.if_succeeds(out, flags, self.expr):\n            pass"))
M('expect-cp-false', 'break', ['C01'],
  (EX + 'expect.py', "    def can_partially_succeed(self):\n        return self.expr.can_partially_succeed()", "    def can_partially_succeed(self):\n        return False"))
M('seq-break-dropped', 'break', ['C01'],
  (EX + 'seq.py', "                with utils.if_fails(out, flags, expr):\n                    out += BREAK", "                with utils.if_fails(out, flags, expr):\n                    pass"))
M('discard-keeps-wrong-side', 'break', ['C01'],
  (EX + 'discard.py', "            if self.discard_left:", "            if not self.discard_left:"))
M('skip-no-restore', 'break', ['C01', 'C04'],
  (EX + 'skip.py', "                if expr.can_partially_succeed():\n                    with out.ELSE():\n                        out += POS << checkpoint", "                pass"))
M('skip-stops-after-first', 'break', ['C01', 'C04'],
  (EX + 'skip.py', "                with out.IF(STATUS):\n                    out += Code('continue')", "                with out.IF(STATUS):\n                    out += Code('break')"))
M('longest-no-reset', 'break', ['C01', 'C02'],
  (EX + 'longest.py', "            if i > 0:\n                out += (POS << backtrack)", "            if i > 1:\n                out += (POS << backtrack)"))
M('longest-result-pos-mismatch', 'break', ['C01', 'C02'],
  (EX + 'longest.py', "                    with out.ELIF(farthest_position < POS):\n                        out += (farthest_result << RESULT)\n", "                    with out.ELIF(farthest_position < POS):\n"))
M('str-end-off-by-one', 'break', ['C01'],
  (EX + 'str.py', "end = out.var('end', POS + len(self.value))", "end = out.var('end', POS + len(self.value) + 1)"))
M('str-skip-from-pos', 'break', ['C01', 'C04'],
  (EX + 'str.py', "out += POS << utils.skip_ignored(end, flags)", "out += POS << utils.skip_ignored(POS, flags)"))
M('regex-ignorecase-dropped', 'break', ['C01'],
  (EX + 'regex.py', "flags = '_IGNORECASE' if self.ignore_case else '0'", "flags = '0'"))
M('regex-search-not-match', 'break', ['C01'],
  (EX + 'regex.py', "flags={flags}).match'", "flags={flags}).search'"))
M('byte-guard-dropped', 'break', ['C01'],
  (EX + 'byte.py', "with out.IF(Code(has_byte, ' and ', is_match)):", "with out.IF(is_match):"))
M('byte-skip-on-failure', 'break', ['C01'],
  (EX + 'byte.py', "            out += RESULT << self.error_func()\n            out += STATUS << False\n\n    def complain", "            out += RESULT << self.error_func()\n            out += POS << (POS + 1)\n            out += STATUS << False\n\n    def complain"))
M('backtrack-guard-strict', 'break', ['C01'],
  (EX + 'backtrack.py', "with out.IF(POS >= self.amount):", "with out.IF(POS > self.amount):"))
M('repeat-helper-no-restore', 'break', ['C02'],
  (EX + 'utils.py', "            if can_partially_succeed:\n                out += (POS << checkpoint)\n            out += BREAK", "            out += BREAK"))
M('if-fails-inverted', 'break', ['C01'],
  (EX + 'utils.py', "        with out.IF_NOT(STATUS):\n            yield", "        with out.IF(STATUS):\n            yield"))
M('rename-temporary-benign', 'benign', ['C01', 'C02', 'C03'],
  (EX + 'opt.py', "backtrack = out.var('backtrack', POS)", "backtrack = out.var('_saved', POS)"))
M('opt-reorder-writes-benign', 'benign', ['C01'],
  (EX + 'opt.py', "            out += RESULT << None\n            out += STATUS << True", "            out += STATUS << True\n            out += RESULT << None"))
M('regex-cp-conservative-benign', 'benign', ['C01'],
  (EX + 'regex.py', "    def can_partially_succeed(self):\n        return False", "    def can_partially_succeed(self):\n        return True"))

# ---------------------------------------------------------------- C02
M('optable-restore-inner', 'break', ['C02'],
  (EX + 'operator_table.py', "                # operators that we consumed after it are left in the input.)\n                with out.IF(operand_stack):\n                    out += (POS << outer_checkpoint)", "                # operators that we consumed after it are left in the input.)\n                with out.IF(operand_stack):\n                    out += (POS << inner_checkpoint)"))
M('optable-cp-flag-old', 'break', ['C02'],
  (EX + 'operator_table.py', "        return self.prefixes is not None or self.operands.can_partially_succeed()", "        return self.operands.can_partially_succeed()"))
M('optable-conflict-break-dropped', 'break', ['C02'],
  (EX + 'operator_table.py', "            with out.IF(Code('_is_conflict')):\n                out += BREAK\n", ""))
M('optable-checkpoint-before-postfix', 'break', ['C02'],
  (EX + 'operator_table.py', "            out += operator_marker << Code(f'len({operator_stack})')\n            out += outer_checkpoint << POS\n\n            if self.infixes:",
   "            out += operator_marker << Code(f'len({operator_stack})')\n\n            if self.infixes:"))

# ---------------------------------------------------------------- C03
M('list-max-test-gt', 'break', ['C03'],
  (EX + 'list.py', "with out.IF(LEN(staging) >= _bound_code(self.max_len)):", "with out.IF(LEN(staging) > _bound_code(self.max_len)):"))
M('list-max-test-after-append-only', 'break', ['C03'],
  (EX + 'list.py', "            if self.max_len is not None:\n                with out.IF(LEN(staging) >= _bound_code(self.max_len)):\n                    out += BREAK\n\n            if self.expr.can_partially_succeed():\n                checkpoint = out.var('checkpoint', POS)", "            if self.expr.can_partially_succeed():\n                checkpoint = out.var('checkpoint', POS)"),
  (EX + 'list.py', "            out += staging.append(RESULT)\n\n        if not self.min_len", "            out += staging.append(RESULT)\n\n            if self.max_len is not None:\n                with out.IF(LEN(staging) == _bound_code(self.max_len)):\n                    out += BREAK\n\n        if not self.min_len"))
M('call-empty-args-wrapped', 'break', ['C07'],
  (EX + 'call.py', "        if not self.args:\n            out += (STATUS, RESULT, POS) << Yield((CALL, self.func.target(flags), POS))\n            return\n", ""))
M('list-min-test-gt', 'break', ['C03'],
  (EX + 'list.py', "condition = LEN(staging) >= _bound_code(self.min_len)", "condition = LEN(staging) > _bound_code(self.min_len)"))
M('list-max-zero-str-forgotten', 'break', ['C03'],
  (EX + 'list.py', "        if self.max_len == 0 or self.max_len == '0':", "        if self.max_len == 0:"))
M('list-as-forgets-str-zero-benign', 'benign', ['C03', 'C19'],
  (EX + 'list.py', "        return not self.min_len or self.min_len == '0'\n\n    def can", "        return not self.min_len\n\n    def can"))
M('list-cp-old', 'break', ['C03'],
  (EX + 'list.py', "        if self.min_len != 1 and self.min_len != '1':\n            return True\n", ""))
M('list-no-restore', 'break', ['C01', 'C03'],
  (EX + 'list.py', "                if self.expr.can_partially_succeed():\n                    out += POS << checkpoint\n                out += BREAK", "                out += BREAK"))
M('sep-trailer-inverted', 'break', ['C03'],
  (EX + 'sep.py', "            if self.allow_trailer:\n                out += checkpoint << POS", "            if not self.allow_trailer:\n                out += checkpoint << POS"))
M('sep-checkpoint-before-element', 'break', ['C03'],
  (EX + 'sep.py', "            out += staging.append(RESULT)\n            out += checkpoint << POS\n\n            with utils.if_fails(out, flags, self.separator):", "            out += staging.append(RESULT)\n\n            with utils.if_fails(out, flags, self.separator):"))
M('sep-pop-condition', 'break', ['C03'],
  (EX + 'sep.py', "if not self.discard_separators and not self.allow_trailer:", "if not self.discard_separators and self.allow_trailer:"))
M('sep-allow-empty-ignored', 'break', ['C03'],
  (EX + 'sep.py', "        else:\n            with out.IF(staging):\n                out.extend(success)", "        else:\n            out.extend(success)"))
M('sep-as-flag-wrong', 'break', ['C03'],
  (EX + 'sep.py', "        return self.allow_empty and not self.require_separator", "        return self.allow_empty"))

# ---------------------------------------------------------------- C07
M('run-memo-store-deleted', 'break', ['C07'],
  (TR, "            stack.pop()\n            memo[key] = result\n", "            stack.pop()\n"))
M('run-memo-store-wrong-key', 'break', ['C07'],
  (TR, "            memo[key] = result\n", "            memo[result] = result\n"))
M('run-memo-lookup-dropped', 'break', ['C07'],
  (TR, "        elif result in memo:\n            result = memo[result]\n", ""))
M('run-key-without-position', 'break', ['C07'],
  (TR, "            stack.append((result, gtor))", "            stack.append((result[:2], gtor))"))
M('run-memo-reset-in-loop', 'break', ['C07'],
  (TR, "        key, gtor = stack[-1]\n        result = gtor.send(result)", "        key, gtor = stack[-1]\n        if len(stack) == 1:\n            memo = {}\n        result = gtor.send(result)"))
M('run-memo-global', 'break', ['C07', 'C18'],
  (TR, "def _run(${ctx}text, pos, start, fullparse):\n    memo = {}", "_memo = {}\n\ndef _run(${ctx}text, pos, start, fullparse):\n    memo = _memo"))
M('run-hit-copy', 'break', ['C07'],
  (TR, "            result = memo[result]\n", "            result = tuple(memo[result])\n"))
M('run-rename-benign', 'benign', ['C07', 'C08', 'C18'],
  (TR, "    memo = {}\n    result = None\n\n    key = ($CALL, start, pos)", "    memo = dict()\n    result = None\n\n    key = ($CALL, start, pos)"))
M('call-constant-one', 'break', ['C07'],
  (EX + 'constants.py', "CALL = 3", "CALL = 1"))

GR = 'sourcer/grammar.py'

# ---------------------------------------------------------------- C04
M('ignore-flag-only-nonignored-rules', 'break', ['C04'],
  (TR, "                visit(rules, _set_skip_ignored)", "                visit(rule, _set_skip_ignored)"))
M('ignore-start-prefix-dropped', 'break', ['C04'],
  (TR, "            first_rule.expr = ex.Right(Ref(impl_name), first_rule.expr)", "            pass"))
M('ignore-class-start-fields', 'break', ['C04'],
  (TR, "first_rule = start_rule.members[0] if start_rule.members else None", "first_rule = start_rule.fields[0] if start_rule.fields else None"))
M('ignore-skip-rule-drops-last', 'break', ['C04'],
  (TR, "else Ref(x.name) for x in ignored]", "else Ref(x.name) for x in ignored[:1]]"))
M('regex-skips-on-failure-path', 'break', ['C04', 'C01'],
  (EX + 'regex.py', "            out += RESULT << self.error_func()\n            out += STATUS << False\n\n    def complain", "            out += RESULT << self.error_func()\n            out += POS << utils.skip_ignored(POS, flags)\n            out += STATUS << False\n\n    def complain"))
M('keywordarg-not-expression', 'break', ['C04', 'C06'],
  (EX + 'call.py', "class KeywordArg(Expression):", "class KeywordArg:"))
M('seq-skips-ignored-too', 'break', ['C04'],
  (EX + 'seq.py', "            result = items if self.constructor is None else self.constructor(*items)", "            out += POS << utils.skip_ignored(POS, flags)\n            result = items if self.constructor is None else self.constructor(*items)"))

# ---------------------------------------------------------------- C05
M('let-binds-after-body', 'break', ['C05'],
  (EX + 'let.py', "            out += Code(self.name) << RESULT\n            self.body.compile(out, flags)", "            saved = out.var('_bound', RESULT)\n            self.body.compile(out, flags)\n            out += Code(self.name) << saved"))
M('passes-swapped', 'break', ['C05', 'C06'],
  (TR, "    _update_local_references(rules)\n    _update_rule_references(rules, parsed.extends)", "    _update_rule_references(rules, parsed.extends)\n    _update_local_references(rules)"))
M('where-keeps-predicate-value', 'break', ['C05'],
  (EX + 'where.py', "                with out.IF(RESULT(arg)):\n                    out += RESULT << arg", "                with out.IF(RESULT(arg)):\n                    pass"))
M('apply-order-swapped', 'break', ['C05', 'C02'],
  (EX + 'apply.py', "result = first(RESULT) if self.apply_left else RESULT(first)", "result = RESULT(first) if self.apply_left else first(RESULT)"))
M('class-ctor-includes-let-fields', 'break', ['C05'],
  (EX + 'class_.py', "                    constructor_args=field_names,", "                    constructor_args=[n for n in all_names if n],"))
M('class-repr-wrong-order', 'break', ['C05', 'C14'],
  (EX + 'class_.py', "values = ', '.join(f'{x}={{self.{x}!r}}' for x in field_names)", "values = ', '.join(f'{x}={{self.{x}!r}}' for x in sorted(field_names))"))
M('let-global-binding', 'break', ['C05', 'C18'],
  (EX + 'let.py', "            out += Code(self.name) << RESULT\n", "            out += Code(f'global {self.name}')\n            out += Code(self.name) << RESULT\n"))

# ---------------------------------------------------------------- C06
M('argumentize-cutoff-old', 'break', ['C06', 'C11'],
  (EX + 'base.py', "        if len(params) <= cutoff:\n            return func", "        if len(params) <= 3:\n            return func"))
M('byte-argumentize-self', 'break', ['C06'],
  (EX + 'byte.py', "value = Expression.argumentize(self, out, flags)", "value = self.argumentize(out, flags)"))
M('call-kwargs-as-dict', 'break', ['C06'],
  (EX + 'call.py', "tuple(args), tuple(kwargs))", "tuple(args), dict(kwargs))"),
  (TR, "return self.func(${ctx}_text, _pos, *self.args, **dict(self.kwargs))", "return self.func(${ctx}_text, _pos, *self.args, **self.kwargs)"))
M('parsefunction-call-drops-kwargs', 'break', ['C06'],
  (TR, "        return self.func(${ctx}_text, _pos, *self.args, **dict(self.kwargs))", "        return self.func(${ctx}_text, _pos, *self.args)"))
M('str-literal-wrapper-extra-arg', 'break', ['C06', 'C11'],
  (TR, "class _StringLiteral(str):\n    def __call__(self, ${ctx}_text, _pos):\n        return self._parse_function(${ctx}_text, _pos)", "class _StringLiteral(str):\n    def __call__(self, ${ctx}_text, _pos):\n        return self._parse_function(_text, _pos)"))

# ---------------------------------------------------------------- C08
M('finalize-partial-returns', 'break', ['C08'],
  (TR, "    if fullparse and pos < len(text):", "    if fullparse and pos + 1 < len(text):"))
M('finalize-partial-result-copy', 'break', ['C08'],
  (TR, "        raise PartialParseError(nodes, position, excerpt)", "        raise PartialParseError(list(nodes) if isinstance(nodes, list) else nodes, position, excerpt)"))
M('run-failure-no-call', 'break', ['C08'],
  (TR, "        message = result[1](text, pos)\n        raise ParseError(message, pos)", "        raise ParseError(str(result[1]), pos, None, None)"))
M('entry-pos-default', 'break', ['C08', 'C11'],
  (EX + 'rule.py', "with out.DEF(entry_name, ['text', 'pos=0', 'fullparse=True']):", "with out.DEF(entry_name, ['text', 'pos=0', 'fullparse=False']):"))
M('class-parse-dict-key', 'break', ['C08', 'C06'],
  (EX + 'class_.py', "out += _closure << _ParseFunction(parse_func, args, ())", "out += _closure << _ParseFunction(parse_func, args, {})"))
M('finalize-unguarded-position', 'break', ['C08', 'C10'],
  (TR, "        if index < len(line_numbers):\n            return _Position(index, line_numbers[index], column_numbers[index])\n        else:\n            return _Position(index, None, None)", "        return _Position(index, line_numbers[index], column_numbers[index])"))
M('error-function-falls-through', 'break', ['C08'],
  (TR, "                    Code('raise ParseError', (TITLE + Code('details'), POS, LINE, COL)),", "                    Code('return ', TITLE + Code('details')),"))

# ---------------------------------------------------------------- C09
M('excerpt-regime-40', 'break', ['C09'],
  (TR, "    elif end - pos < 42:", "    elif end - pos < 40:"))
M('excerpt-caret-off-by-one', 'break', ['C09'],
  (TR, "_caret_at(pos - (end - 90) + 4)", "_caret_at(pos - (end - 90) + 3)"))
M('excerpt-window-wider', 'break', ['C09'],
  (TR, "text[start : start + 90] + ' ...'", "text[start : start + 100] + ' ...'"))
M('linecol-column-from-one', 'break', ['C09'],
  (TR, "    current_line = 1\n    current_column = 0", "    current_line = 1\n    current_column = 1"))
M('linecol-newline-keeps-line', 'break', ['C09'],
  (TR, "        if c == '\\n':\n            current_line += 1\n            current_column = 0\n        else:\n            current_column += 1\n        line_numbers.append(current_line)", "        line_numbers.append(current_line)\n        if c == '\\n':\n            current_line += 1\n            current_column = 0\n        else:\n            current_column += 1"))
M('error-eoi-test-strict', 'break', ['C09'],
  (TR, "with out.IF(Code('len')(TEXT) <= POS):", "with out.IF(Code('len')(TEXT) < POS):"))
M('choice-farthest-not-strict', 'break', ['C09'],
  (EX + 'choice.py', "                        condition = farthest_pos < POS", "                        condition = farthest_pos <= POS"))
M('choice-reports-entry', 'break', ['C09'],
  (EX + 'choice.py', "                    with out.IF(condition):\n                        out += farthest_pos << POS\n                        out += farthest_err << RESULT", "                    with out.IF(condition):\n                        out += farthest_err << RESULT"))
M('excerpt-rename-benign', 'benign', ['C09'],
  (TR, "    start = pos - (col - 1)\n    match = _compile_re('\\n').search(text, pos + 1)", "    start = pos - col + 1\n    match = _compile_re('\\n').search(text, pos + 1)"))

# ---------------------------------------------------------------- C10
M('span-start-after-first', 'break', ['C10'],
  (EX + 'seq.py', "        if self.needs_parse_info:\n            start_pos = out.var('start_pos', POS)\n\n        cargs", "        cargs"),
  (EX + 'seq.py', "            if self.needs_parse_info:\n                out += RESULT._metadata.position_info << (start_pos, POS)", "            if self.needs_parse_info:\n                out += RESULT._metadata.position_info << (POS, POS)"))
M('span-end-exclusive', 'break', ['C10'],
  (TR, "            end = max(start, end - 1)", "            end = max(start, end)"))
M('span-convert-skips-falsy', 'benign', ['C10'],
  (TR, "        if pos_info and not isinstance(pos_info, _PositionInfo):", "        if pos_info is not None and not isinstance(pos_info, _PositionInfo):"))
M('span-column-from-line-table', 'break', ['C10'],
  (TR, "            return _Position(index, line_numbers[index], column_numbers[index])", "            return _Position(index, line_numbers[index], line_numbers[index])"))

# ---------------------------------------------------------------- C11
M('rule-entry-forgets-ctx', 'break', ['C11', 'C08'],
  (EX + 'rule.py', "                ctx = '_ctx, ' if flags.uses_context else ''\n", "                ctx = ''\n"))
M('skip-ignored-forgets-ctx', 'break', ['C11', 'C13'],
  (EX + 'utils.py', "    if flags.uses_context:\n        func = '_ctx.' + func\n", ""))
M('include-source-changes-module', 'break', ['C11'],
  (GR, "    name = parsed.name or 'grammar'", "    name = parsed.name or ('grammar_src' if include_source else 'grammar')"))
M('freevars-unsorted', 'break', ['C11'],
  (EX + 'base.py', "list(sorted(self.freevars()))", "list(self.freevars())"))
M('template-assert', 'break', ['C11'],
  (TR, "def _caret_at(index):\n    return", "def _caret_at(index):\n    assert index >= 0\n    return"))

# ---------------------------------------------------------------- C13
M('ref-super-through-ctx', 'break', ['C13'],
  (EX + 'ref.py', "            and not resolved.startswith('_super_ctx.')):", "            and not resolved.startswith('_no_such_prefix.')):"))
M('ref-argumentize-early-bound', 'break', ['C13', 'C11'],
  (EX + 'ref.py', "    def argumentize(self, out, flags):\n        return self.target(flags)", "    def argumentize(self, out, flags):\n        return Code(self.resolved)"))
M('wiring-skips-inherited', 'break', ['C13'],
  (TR, "                    out += Code(f'_ctx.{impl_name} = _super_ctx.{impl_name}')\n                    visited_names.add(stmt.name)", "                    visited_names.add(stmt.name)"))
M('resolve-parent-only', 'break', ['C13'],
  (TR, "        ancestor = ancestor.extends\n\n    def check_refs", "        ancestor = None\n\n    def check_refs"))
M('install-dotted-not-registered', 'break', ['C13'],
  (GR, "def _install_module(name, module):\n    sys.modules[name] = module\n\n    if '.' not in name:\n        return", "def _install_module(name, module):\n    if '.' not in name:\n        sys.modules[name] = module\n        return"))
M('subgrammar-import-list-short', 'break', ['C13', 'C11'],
  (TR, "    _wrap_byte_literal,\n    _wrap_string_literal,\n    transform,", "    _wrap_string_literal,\n    transform,"))
M('child-writes-parent-ctx', 'break', ['C13', 'C18'],
  (TR, "            out += Code('_ctx._super_ctx = _super_ctx')", "            out += Code('_ctx._super_ctx = _super_ctx')\n            out += Code('_super_ctx._child = _ctx')"))

# ---------------------------------------------------------------- C14
M('eq-ignores-class', 'break', ['C14'],
  (TR, "        if not isinstance(other, self.__class__):\n            return False\n", "        if not hasattr(other, '_fields'):\n            return False\n"))
M('hash-includes-metadata', 'break', ['C14'],
  (TR, "        for field in self._fields:\n            result ^= _hash(getattr(self, field))", "        result ^= id(self._metadata)\n        for field in self._fields:\n            result ^= _hash(getattr(self, field))"))
M('hash-builtin-on-fields', 'break', ['C14'],
  (TR, "            result ^= _hash(getattr(self, field))", "            result ^= hash(getattr(self, field))"))
M('hash-helper-no-dict', 'break', ['C14'],
  (TR, "        elif isinstance(value, dict):\n            result = 0\n            for pair in value.items():\n                result ^= _hash(pair)\n            return result\n", ""))
M('replace-in-place', 'break', ['C14', 'C16'],
  (TR, "        result = self.__class__(**kw)\n        result._metadata.update(self._metadata)\n        return result", "        for k, v in kw.items():\n            setattr(self, k, v)\n        return self"))
M('replace-drops-metadata', 'break', ['C14', 'C16'],
  (TR, "        result = self.__class__(**kw)\n        result._metadata.update(self._metadata)\n        return result", "        result = self.__class__(**kw)\n        return result"))
M('metadata-getattr-old', 'break', ['C14'],
  (TR, "        try:\n            fields = self.__dict__['_fields']\n        except KeyError:\n            raise AttributeError(name) from None\n        return fields.get(name)", "        return self._fields.get(name)"))
M('infix-repr-swapped', 'break', ['C14'],
  (TR, "return f'Infix({self.left!r}, {self.operator!r}, {self.right!r})'", "return f'Infix({self.operator!r}, {self.left!r}, {self.right!r})'"))
M('asdict-sorted', 'break', ['C14'],
  (TR, "return {k: getattr(self, k) for k in self._fields}", "return {k: getattr(self, k) for k in sorted(self._fields)}"))

# ---------------------------------------------------------------- C15
M('visit-no-reversed-fields', 'break', ['C15'],
  (TR, "stack.extend(getattr(node, x) for x in reversed(node._fields))", "stack.extend(getattr(node, x) for x in node._fields)"))
M('visit-no-reversed-list', 'break', ['C15'],
  (TR, "        if isinstance(node, (list, tuple)):\n            stack.extend(reversed(node))", "        if isinstance(node, (list, tuple)):\n            stack.extend(node)"))
M('visit-dict-keys', 'break', ['C15'],
  (TR, "stack.extend(reversed(node.values()))", "stack.extend(reversed(list(node)))"))
M('visit-bfs', 'break', ['C15'],
  (TR, "def visit(node):\n    visited = set()\n    stack = [node]\n    while stack:\n        node = stack.pop()", "def visit(node):\n    visited = set()\n    stack = [node]\n    while stack:\n        node = stack.pop(0)"))
M('visit-no-visited-add', 'break', ['C15', 'C10'],
  (TR, "            if node_id in visited:\n                continue\n            visited.add(node_id)\n", "            if node_id in visited:\n                continue\n"))
M('visit-by-value', 'break', ['C15', 'C10'],
  (TR, "            node_id = id(node)\n            if node_id in visited:\n                continue\n            visited.add(node_id)", "            if node in visited:\n                continue\n            visited.add(node)"))
M('traverse-marker-after-children', 'break', ['C15'],
  (TR, "        stack.append(traversing._replace(is_finished=True))\n        yield traversing\n\n        def extend(items):\n            stack.extend(reversed(list(items)))\n", "        yield traversing\n\n        def extend(items):\n            stack.extend(reversed(list(items)))\n            stack.append(traversing._replace(is_finished=True))\n"))
M('traverse-dedup-leaves-again', 'break', ['C15'],
  (TR, "        if isinstance(child, (list, tuple, dict, ParsedObject)):\n            child_id = id(child)", "        if True:\n            child_id = id(child)"))
M('traverse-wrong-parent', 'break', ['C15'],
  (TR, "                _Traversing(parent=child, field=i, child=x, is_finished=False)", "                _Traversing(parent=traversing.parent, field=i, child=x, is_finished=False)"))
M('traverse-recursive', 'break', ['C15', 'C17'],
  (TR, "        elif isinstance(child, dict):\n            extend(\n                _Traversing(parent=child, field=k, child=v, is_finished=False)\n                for k, v in child.items()\n            )", "        elif isinstance(child, dict):\n            for k, v in child.items():\n                yield from traverse(v)"))

# ---------------------------------------------------------------- C16
M('transform-preorder', 'break', ['C16'],
  (TR, "    if not isinstance(node, ParsedObject):\n        return node\n\n    updates = {}", "    if not isinstance(node, ParsedObject):\n        return node\n\n    node = callback(node)\n    if not isinstance(node, ParsedObject):\n        return node\n    updates = {}"))
M('transform-setattr', 'break', ['C16'],
  (TR, "        if now is not was:\n            updates[field] = now\n", "        if now is not was:\n            setattr(node, field, now)\n"))
M('transform-metadata-guard-dropped', 'break', ['C16'],
  (TR, "                    and isinstance(node, ParsedObject)\n                    and not node._metadata\n                ):", "                    and isinstance(node, ParsedObject)\n                ):"))
M('transform-metadata-wrong-direction', 'break', ['C16'],
  (TR, "                    node._metadata.update(prev._metadata)", "                    prev._metadata.update(node._metadata)"))
M('transform-callbacks-reversed', 'break', ['C16'],
  (TR, "        for f in callbacks:\n            prev = node", "        for f in reversed(callbacks):\n            prev = node"))
M('transform-equality-test', 'break', ['C16'],
  (TR, "        if now is not was:\n            updates[field] = now", "        if now != was:\n            updates[field] = now"))
M('transform-lists-skipped', 'break', ['C16'],
  (TR, "    if isinstance(node, list):\n        return [_transform(x, callback) for x in node]\n\n    if not isinstance(node, ParsedObject):", "    if not isinstance(node, ParsedObject):"))

# ---------------------------------------------------------------- C17
M('spill-plain-call-again', 'break', ['C17'],
  (EX + 'base.py', "out += (STATUS, RESULT, POS) << Code('(yield from ', func(*params), ')')", "out += (STATUS, RESULT, POS) << func(*params)"))
M('spill-helper-not-generator', 'break', ['C17'],
  (EX + 'base.py', "                if not is_generator:\n                    # The caller uses `yield from`. Make sure that this is a\n                    # generator function, even if the body never yields.\n                    out += Code('yield from ()')\n\n", ""))
M('spill-helper-forgets-freevars', 'break', ['C17'],
  (EX + 'base.py', "params = extras + [str(TEXT), str(POS)] + list(sorted(self.freevars()))", "params = extras + [str(TEXT), str(POS)] + (list(sorted(self.freevars())) if is_generator else [])"))
M('run-recursive', 'break', ['C17'],
  (TR, "        else:\n            gtor = result[1](${ctx}text, result[2])\n            stack.append((result, gtor))\n            result = None", "        else:\n            try:\n                result = (True, _run(${ctx}text, result[2], result[1], False), result[2])\n            except ParseError as e:\n                result = (False, None, result[2])"))

# ---------------------------------------------------------------- C18
M('linecol-cache-global', 'break', ['C18'],
  (TR, "def _map_index_to_line_and_column(text):\n    line_numbers = []", "_linecol_cache = {}\n\ndef _map_index_to_line_and_column(text):\n    if text in _linecol_cache:\n        return _linecol_cache[text]\n    _linecol_cache.clear()\n    line_numbers = []"),
  (TR, "        column_numbers.append(current_column)\n\n    return line_numbers, column_numbers", "        column_numbers.append(current_column)\n\n    _linecol_cache[text] = (line_numbers, column_numbers)\n    return line_numbers, column_numbers"))
M('linecol-cache-default-arg', 'break', ['C18'],
  (TR, "def _map_index_to_line_and_column(text):", "def _map_index_to_line_and_column(text, _cache={}):"))
M('regex-lazy-global', 'break', ['C18'],
  (TR, "def _caret_at(index):", "_newline = None\n\ndef _find_newline(text, pos):\n    global _newline\n    if _newline is None:\n        _newline = _compile_re('\\n')\n    return _newline.search(text, pos)\n\n\ndef _caret_at(index):"))
M('grammar-module-cache', 'break', ['C18'],
  (GR, "def Grammar(description, include_source=False):\n    # Parse the grammar description.", "_modules = {}\n\n\ndef Grammar(description, include_source=False):\n    if description in _modules:\n        return _modules[description]\n    # Parse the grammar description."),
  (GR, "    if parsed.name:\n        _install_module(name, module)\n\n    return module", "    if parsed.name:\n        _install_module(name, module)\n\n    _modules[description] = module\n    return module"))
M('ctx-mutated-in-parse', 'break', ['C18'],
  (TR, "def parse(text, pos=0, fullparse=True):\n    return _run(${ctx}text, pos, $start, fullparse)\n\n\n_PositionInfo", "_last = {}\n\ndef parse(text, pos=0, fullparse=True):\n    _last['text'] = text\n    return _run(${ctx}text, pos, $start, fullparse)\n\n\n_PositionInfo"))

# ---------------------------------------------------------------- C19
M('right-keeps-left', 'break', ['C19'],
  (EX + 'sugar.py', "def Right(expr1, expr2):\n    return Discard(expr1, expr2, discard_left=True)", "def Right(expr1, expr2):\n    return Discard(expr1, expr2, discard_left=False)"))
M('some-min-zero', 'break', ['C19'],
  (EX + 'sugar.py', "    return List(expr, min_len=1)", "    return List(expr, min_len=0)"))
M('slashq-no-trailer', 'break', ['C19', 'C03'],
  (TR, "'/?': lambda a, b: ex.Sep(a, b, allow_trailer=True),", "'/?': lambda a, b: ex.Sep(a, b, allow_trailer=False),"))
M('sep-default-trailer', 'break', ['C19'],
  (EX + 'sep.py', "            discard_separators=True,\n            allow_trailer=False,", "            discard_separators=True,\n            allow_trailer=True,"))
M('choice-flatten-right-first', 'break', ['C19'],
  (TR, "        return ex.Choice(*left, *right)", "        return ex.Choice(*right, *left)"))
M('repeat-stop-dropped', 'break', ['C19', 'C03'],
  (TR, "            return ex.List(left, min_len=start, max_len=stop)", "            return ex.List(left, min_len=start, max_len=start)"))
M('string-ignorecase-unescaped', 'break', ['C01'],
  (TR, "            return ex.Regex(re.escape(value), ignore_case=True)", "            return ex.Regex(value, ignore_case=True)"))
M('regex-literal-keeps-slash', 'break', ['C01'],
  (TR, "        # Remove /slash/ delimiters.\n        value = value[1:-1]", "        # Remove /slash/ delimiters.\n        value = value[1:]"))

# ---------------------------------------------------------------- C20
M('new-temporary-base', 'break', ['C20'],
  (EX + 'opt.py', "backtrack = out.var('backtrack', POS)", "backtrack = out.var('saved', POS)"))
M('new-builtin-use', 'break', ['C20'],
  (TR, "    result = _ByteLiteral(byte_value)", "    result = _ByteLiteral(int(byte_value))"))
M('underscore-temporary-benign', 'benign', ['C20', 'C01'],
  (EX + 'opt.py', "backtrack = out.var('backtrack', POS)", "backtrack = out.var('_backtrack', POS)"))
