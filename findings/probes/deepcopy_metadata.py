import copy, pickle, sys
from sourcer import Grammar
g = Grammar('grammar probe_copy_mod\nclass P { a: "x"; b: "y"* }\nstart = P')
o = g.parse('xyy')
try:
    c = copy.deepcopy(o)
    print('deepcopy ok', c == o, c is not o, c._metadata.position_info == o._metadata.position_info, c._metadata is not o._metadata)
    p = pickle.loads(pickle.dumps(o))
    print('pickle ok', p == o, p._metadata.position_info == o._metadata.position_info)
    c2 = copy.copy(o); print('copy ok', c2 == o)
    print('missing attr ->', o._metadata.nothing)
except RecursionError as e:
    print('RecursionError'); sys.exit(1)
