"""Configuration tables for the expression classes and skeleton emission.

A *configuration* fixes the class, the values of its own constructor parameters (from
a finite partition of their domains), one abstract child per child slot, and the calling
convention.  The object is built through the interpreted `__init__` of the class, so
constructor validation prunes the space exactly as the real constructor does.
"""
import ast
import itertools

from .common import AnalysisError, Unsupported
from . import load
from . import metaeval as M

EX = 'sourcer.expressions.'

# class name -> module (discovered from the package __init__, see discover())
FLAG_STATES = {
    'AS': dict(AS=True, CP=False),
    'nCP': dict(AS=False, CP=False),
    'CP': dict(AS=False, CP=True),
}


class Built:
    def __init__(self, cfg, obj, src, AS, CP, prog, it):
        self.cfg, self.obj, self.src, self.AS, self.CP = cfg, obj, src, AS, CP
        self.prog, self.it = prog, it
        try:
            self.tree = ast.parse(src)
        except SyntaxError as e:
            self.tree = None
            self.syntax_error = e


class Config:
    def __init__(self, cls, args=(), kwargs=None, children=None, post=None, ctx=False, label=''):
        self.cls = cls
        self.args = list(args)
        self.kwargs = dict(kwargs or {})
        self.children = dict(children or {})     # slot -> AbsChild
        self.post = dict(post or {})             # attributes set after construction
        self.ctx = ctx
        self.label = label

    @property
    def key(self):
        return f'{self.label};ctx={int(self.ctx)}'


class Rejected(Exception):
    """constructor refused the configuration (pruned, like the real constructor)"""


class World:
    """One interpreted copy of sourcer.expressions."""

    def __init__(self):
        self.prog, self.it = M.fresh_program()
        self.OS = load.load_outsourcer()
        self.pkg = self.prog.load('sourcer.expressions')
        self.base = self.prog.load(EX + 'base')
        if 'Expression' not in self.base.env:
            raise AnalysisError('anchor class Expression missing from expressions/base.py')
        self.Expression = self.base.env['Expression']

    def classes(self):
        """name -> Cls for every Expression subclass defined under expressions/"""
        out = {}
        for rel in load.expression_files():
            name = rel[:-3].replace('/', '.')
            if name.endswith('__init__'):
                continue
            m = self.prog.load(name)
            for k, v in m.env.items():
                if isinstance(v, M.Cls) and v.module is m and self.Expression in v.mro() \
                        and v is not self.Expression:
                    out[k] = v
        return out

    def cls(self, name):
        cs = self.classes()
        if name not in cs:
            raise AnalysisError(f'anchor class {name} not found under sourcer/expressions')
        return cs[name]

    def new(self, clsname, *args, **kwargs):
        c = self.cls(clsname) if isinstance(clsname, str) else clsname
        return self.it.call(c, list(args), kwargs)

    def call(self, obj, meth, *args, **kwargs):
        return self.it.call(self.it.getattr(obj, meth), list(args), kwargs)

    def build(self, cfg, program_id=7):
        try:
            obj = self.new(cfg.cls, *cfg.args, **cfg.kwargs)
        except M.MetaRaise as e:
            raise Rejected(str(e))
        obj.d.setdefault('program_id', program_id)
        for k, v in cfg.post.items():
            obj.d[k] = v
        out = self.OS.CodeBuilder()
        flags = M.Flags(cfg.ctx)
        # other expressions of the same grammar whose module-level precompile hooks ran earlier
        # (they share the builder's state: e.g. the cache of compiled regex matchers)
        for scls, sargs, skw in getattr(cfg, 'siblings', ()):
            sib = self.new(scls, *sargs, **skw)
            sib.d.setdefault('program_id', program_id + 100)
            self.call(sib, 'precompile', out)
        # module-level precompile hooks (regex matchers)
        self.call(obj, 'precompile', out)
        pre_src = out.source_code()
        self.call(obj, 'compile', out, flags)
        src = out.source_code()
        AS = bool(self.call(obj, 'always_succeeds'))
        CP = bool(self.call(obj, 'can_partially_succeed'))
        b = Built(cfg, obj, src, AS, CP, self.prog, self.it)
        b.out = out
        b.pre_src = pre_src          # what the module-level precompile hooks emitted
        return b


def A(label, state, kind=None, **kw):
    return M.AbsChild(label, kind=kind, **FLAG_STATES[state], **kw)


def child_states(world, allow_fail=True):
    """(tag, kwargs) for one abstract child.  The `Fail` kind gets the flags the repo's
    own Fail class reports."""
    out = [(t, dict(state=t)) for t in FLAG_STATES]
    if allow_fail:
        f = world.new('Fail')
        f_as = bool(world.call(f, 'always_succeeds'))
        f_cp = bool(world.call(f, 'can_partially_succeed'))
        tag = 'AS' if f_as else ('CP' if f_cp else 'nCP')
        out.append(('Fail', dict(state=tag, kind='Fail')))
    return out


def _kids(world, slots, allow_fail=False):
    sts = child_states(world, allow_fail)
    for combo in itertools.product(sts, repeat=len(slots)):
        ch = {}
        tags = []
        for slot, (tag, kw) in zip(slots, combo):
            ch[slot] = A(slot, **kw)
            tags.append(f'{slot}={tag}')
        yield ch, ','.join(tags)


def enumerate_configs(world, clsname, tier='quick'):
    """Yield Config objects for one class (both conventions)."""
    thorough = tier == 'thorough'
    for ctx in (False, True):
        for cfg in _enumerate(world, clsname, thorough):
            cfg.ctx = ctx
            yield cfg


def _enumerate(world, K, thorough):
    if K in ('Opt', 'Expect', 'ExpectNot'):
        for ch, tag in _kids(world, ['e']):
            yield Config(K, [ch['e']], {}, ch, label=f'{K}:{tag}')
    elif K == 'Discard':
        for dl in (True, False):
            for ch, tag in _kids(world, ['a', 'b']):
                yield Config(K, [ch['a'], ch['b']], dict(discard_left=dl), ch,
                             label=f'{K}:discard_left={dl},{tag}')
    elif K == 'Apply':
        for al in (True, False):
            for ch, tag in _kids(world, ['a', 'b']):
                yield Config(K, [ch['a'], ch['b']], dict(apply_left=al), ch,
                             label=f'{K}:apply_left={al},{tag}')
    elif K == 'Where':
        for ch, tag in _kids(world, ['e', 'p']):
            yield Config(K, [ch['e'], ch['p']], {}, ch, label=f'{K}:{tag}')
    elif K == 'Let':
        for ch, tag in _kids(world, ['e', 'b']):
            yield Config(K, ['x', ch['e'], ch['b']], {}, ch, label=f'{K}:{tag}')
    elif K in ('Choice', 'Longest', 'Skip'):
        maxn = 4 if thorough else 3
        for n in range(1, maxn + 1):
            slots = [f'c{i}' for i in range(n)]
            for ch, tag in _kids(world, slots, allow_fail=(K != 'Skip')):
                yield Config(K, [ch[s] for s in slots], {}, ch, label=f'{K}:n={n},{tag}')
    elif K == 'Seq':
        maxn = 4 if thorough else 3
        for n in range(0, maxn + 1):
            slots = [f'c{i}' for i in range(n)]
            name_opts = list(itertools.product([None, 'nm'], repeat=n))
            for names in name_opts:
                nm = [None if x is None else f'f{i}' for i, x in enumerate(names)]
                named = [x for x in nm if x]
                ctor_opts = [(None, None)]
                if any(nm) or n == 0:
                    # constructor with all named fields, and with a strict subset
                    ctor_opts.append(('K', list(named)))
                    if len(named) >= 1:
                        ctor_opts.append(('K', named[1:]))
                for ctor, cargs in ctor_opts:
                    for ch, tag in _kids(world, slots):
                        kw = {}
                        if any(nm):
                            kw['names'] = list(nm)
                        if ctor:
                            kw['constructor'] = ctor
                            kw['constructor_args'] = cargs
                            if not any(nm):
                                kw['names'] = list(nm)
                        yield Config(K, [ch[s] for s in slots], kw, ch,
                                     label=f'{K}:n={n},names={nm},ctor={ctor},cargs={cargs},{tag}')
    elif K == 'List':
        mins = [None, 0, '0', 1, '1', 2, '2', 'n']
        maxs = [None, 0, '0', 1, '3', 'm', 'n']          # 'n' with min 'n': an exact data-dependent count
        for mi in mins:
            for ma in maxs:
                for ch, tag in _kids(world, ['e']):
                    yield Config(K, [ch['e']], dict(min_len=mi, max_len=ma), ch,
                                 label=f'{K}:min_len={mi!r},max_len={ma!r},{tag}')
    elif K == 'Sep':
        for ds, at, ae, rs in itertools.product([True, False], repeat=4):
            for ch, tag in _kids(world, ['e', 's']):
                yield Config(K, [ch['e'], ch['s']],
                             dict(discard_separators=ds, allow_trailer=at, allow_empty=ae,
                                  require_separator=rs), ch,
                             label=f'{K}:discard_separators={ds},allow_trailer={at},'
                                   f'allow_empty={ae},require_separator={rs},{tag}')
    elif K == 'OperatorTable':
        for pre, post, inf in itertools.product([False, True], repeat=3):
            slots = ['opd'] + (['pre'] if pre else []) + (['post'] if post else []) + (
                ['inf'] if inf else [])
            for ch, tag in _kids(world, slots):
                # operators that always succeed make the table loop forever (repetition of
                # something that can succeed without consuming): outside the quantifier
                if any(ch[s].AS for s in slots if s != 'opd'):
                    continue
                yield Config(K, ['o', [], ch.get('pre'), ch['opd'], ch.get('post'), ch.get('inf')],
                             {}, ch,
                             label=f'{K}:pre={pre},post={post},inf={inf},{tag}')
    elif K == 'Str':
        for v in ('', 'ab', b'ab', b''):
            for sk in (False, True):
                yield Config(K, [v], {}, {}, post=dict(skip_ignored=sk),
                             label=f'{K}:value={v!r},skip_ignored={sk}')
    elif K == 'Regex':
        for pat in ('a+', b'a+'):
            for ic in (False, True):
                for sk in (False, True):
                    yield Config(K, [pat], dict(ignore_case=ic), {}, post=dict(skip_ignored=sk),
                                 label=f'{K}:pattern={pat!r},ignore_case={ic},skip_ignored={sk}')
                # the same pattern text occurs elsewhere in the grammar with the other case flag
                # (a regex literal and a case-insensitive string literal both become Regex)
                c = Config(K, [pat], dict(ignore_case=ic), {}, post=dict(skip_ignored=False),
                           label=f'{K}:pattern={pat!r},ignore_case={ic},after-sibling-with-ignore_case={not ic}')
                c.siblings = [('Regex', [pat], dict(ignore_case=not ic))]
                yield c
    elif K == 'Byte':
        for sk in (False, True):
            yield Config(K, [0x41], {}, {}, post=dict(skip_ignored=sk),
                         label=f'{K}:value=0x41,skip_ignored={sk}')
    elif K == 'Backtrack':
        for n in (0, 1, 3):
            yield Config(K, [n], {}, {}, label=f'{K}:amount={n}')
    elif K == 'Fail':
        for msg in (None, 'boom'):
            yield Config(K, [msg], {}, {}, label=f'{K}:message={msg!r}')
    elif K == 'PythonExpression':
        yield Config(K, ['foo(1)'], {}, {}, label=f'{K}:source')
    elif K == 'Ref':
        for local in (False, True):
            for resolved in (None, '_try_R', '_super_ctx._try_R'):
                yield Config(K, ['R'], {}, {}, post=dict(is_local=local, _resolved=resolved),
                             label=f'{K}:is_local={local},resolved={resolved}')
    else:
        raise AnalysisError(f'no configuration table for expression class {K} '
                            '(a person must extend sva/skeleton.py)')


# classes handled by dedicated routes (rules_routes), not by the skeleton tables
ROUTE_CLASSES = {'Rule', 'Class', 'Call', 'KeywordArg'}

CTOR_PARAMS = {
    # the constructor parameters the tables above were written for; a new parameter
    # means the partition is no longer exhaustive -> exit 2
    'Opt': ['expr'], 'Expect': ['expr'], 'ExpectNot': ['expr'],
    'Discard': ['expr1', 'expr2', 'discard_left'], 'Apply': ['expr1', 'expr2', 'apply_left'],
    'Where': ['expr', 'predicate'], 'Let': ['name', 'expr', 'body'],
    'Choice': ['*exprs'], 'Longest': ['*exprs'], 'Skip': ['*exprs'],
    'Seq': ['*exprs', 'names', 'constructor', 'constructor_args'],
    'List': ['expr', 'min_len', 'max_len'],
    'Sep': ['expr', 'separator', 'discard_separators', 'allow_trailer', 'allow_empty',
            'require_separator'],
    'OperatorTable': ['operand_str', 'row_strs', 'prefixes', 'operands', 'postfixes', 'infixes'],
    'Str': ['value'], 'Regex': ['pattern', 'ignore_case'], 'Byte': ['value'],
    'Backtrack': ['amount'], 'Fail': ['message'], 'PythonExpression': ['source_code'],
    'Ref': ['name'], 'Call': ['func', 'args'],
    'Rule': ['name', 'params', 'expr', 'is_ignored', 'is_omitted'],
    'Class': ['name', 'params', 'members', 'is_ignored'],
    'KeywordArg': ['name', 'expr'],
}


def ctor_params(cls):
    f = cls.lookup('__init__') if cls.has('__init__') else None
    if f is None:
        return []
    a = f.node.args
    out = [x.arg for x in a.posonlyargs + a.args][1:]
    if a.vararg:
        out.insert(len(out), '*' + a.vararg.arg)
    out += [x.arg for x in a.kwonlyargs]
    if a.kwarg:
        out.append('**' + a.kwarg.arg)
    return out


def check_tables(world):
    """-> list of problems (unknown class, changed constructor)"""
    problems = []
    classes = world.classes()
    for name, c in classes.items():
        if name not in CTOR_PARAMS:
            problems.append(f'unknown Expression subclass {name} ({c.module.rel}): '
                            'no configuration table')
            continue
        have = ctor_params(c)
        want = CTOR_PARAMS[name]
        # a parameter added with a default value leaves every configuration of the tables valid
        f = c.lookup('__init__') if c.has('__init__') else None
        optional = set()
        if f is not None:
            a = f.node.args
            pos = [x.arg for x in a.posonlyargs + a.args]
            optional |= set(pos[len(pos) - len(a.defaults):])
            optional |= {k.arg for k, d in zip(a.kwonlyargs, a.kw_defaults) if d is not None}
        extra = [p for p in have if p not in want]
        if extra and all(p in optional for p in extra) and sorted(p for p in have if p in want) == sorted(want):
            continue
        # vararg position is irrelevant to the partition
        if sorted(have) != sorted(want):
            problems.append(f'constructor of {name} changed: parameters {have}, tables written '
                            f'for {want}')
    for name in CTOR_PARAMS:
        if name not in classes and name != 'KeywordArg':
            problems.append(f'anchor class {name} vanished')
    return problems
