"""C19 - alternative spellings: translator half."""
from .. import mapping


def run(rep, tier):
    rep.explanation = (
        'translator._create_parsing_expression is evaluated by the ast interpreter on the syntax tree of '
        'both spellings of every documented pair (the parts already translated, as the bottom-up '
        'transform delivers them); the resulting expression objects are canonicalised to (class, '
        'attributes) and must be equal: ?/Opt, */List, +/Some, >>/Right, <</Left, |/Choice (flattening '
        'keeps order), [..]/Seq, ///Sep, /?/Sep(allow_trailer=True), {m,n}/List(min_len, max_len) (int '
        'and str spellings of a bound identified, justified by the C03 sibling rule), |>, <|, where. '
        'The shipped parser\'s Expr operator table carries precedence tags in the documented order, all '
        'binary rows left-associative, and grammar.txt lists the rows in that order.')
    rep.not_decided += ['the lexical alternatives (= : =>, newline vs ;, comments, ignore/ignored, redundant '
                        'parentheses, bare expression vs start = expr): input-level behaviour of the metagrammar '
                        'parser']
    mapping.spelling_pairs(rep)
    mapping.bound_spellings(rep)
    mapping.repeat_mapping(rep)         # e{m,n} / List(e, min_len=m, max_len=n), zero bounds included
    mapping.precedence_rows(rep)
    # {m,n} hands an inline-Python bound to List as text, List(e, min_len=..) hands it evaluated: the text must be
    # emitted as one operand (`len(x) >= (2 or 5)`), or the two spellings of one bound behave differently
    mapping.bound_atomicity(rep)
    # the two spellings of a bound reach List as str resp. int: the static flags must be sound for both
    from .. import e1run
    rep.rule('G2-cp-sound', 'List flags are sound for the str and the int spelling of every bound')
    rep.rule('G2-as-sound', 'List flags are sound for the str and the int spelling of every bound')
    total = e1run.run(rep, ['List'], tier, select=lambda f: f['rule'] in ('G2-cp-sound', 'G2-as-sound', 'F0-flags-exclusive'))
    rep.floor('configurations of List', total.get('List', 0), 200)
    from .. import controls
    controls.e1_controls(rep)
