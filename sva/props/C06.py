"""C06 - parameterised rules: calling-convention conformance, sibling argumentize, visitor coverage,
memo-key hashability, interception table."""
import ast

from ..common import Finding, AnalysisError
from .. import load, routes


def sibling_argumentize(rep):
    """every argumentize override delegates to the base implementation and none calls itself"""
    n = 0
    for rel in load.expression_files():
        tree = load.parse(rel)
        for cls in [c for c in tree.body if isinstance(c, ast.ClassDef)]:
            for m in cls.body:
                if isinstance(m, ast.FunctionDef) and m.name == 'argumentize':
                    n += 1
                    selfname = m.args.args[0].arg
                    for node in ast.walk(m):
                        if isinstance(node, ast.Call) and isinstance(node.func, ast.Attribute) \
                                and node.func.attr == 'argumentize' and isinstance(node.func.value, ast.Name) \
                                and node.func.value.id == selfname:
                            rep.add(Finding('SIBLING-argumentize', f'{rel}:{cls.name}.argumentize', '',
                                            f'{cls.name}.argumentize calls self.argumentize with unchanged arguments: '
                                            f'unbounded recursion when `{cls.name}` is used as a template argument',
                                            f'{rel}:{cls.name}.argumentize (line {node.lineno})'))
                    rep.oblige(True)
    rep.count('argumentize implementations examined', n)
    rep.floor('argumentize implementations examined', n, 5)


def visitor_coverage(rep):
    """program ids, skip_ignored, reference resolution and precompile are distributed by base.visit,
    which descends into Expression instances, lists and tuples only: every class of the expression
    package whose instances hold child expressions must be an Expression."""
    from .. import skeleton as SK
    w = SK.World()
    exprs = set(w.classes())
    n = 0
    for rel in load.expression_files():
        tree = load.parse(rel)
        for cls in [c for c in tree.body if isinstance(c, ast.ClassDef)]:
            n += 1
            if cls.name in exprs or cls.name == 'Expression':
                continue
            init = next((m for m in cls.body if isinstance(m, ast.FunctionDef) and m.name == '__init__'), None)
            params = [a.arg for a in init.args.args][1:] if init else []
            holds = [p for p in params if p in ('expr', 'exprs', 'expr1', 'expr2', 'body', 'operand', 'args',
                                                'members', 'separator', 'predicate')]
            rep.oblige(not holds)
            if holds:
                rep.add(Finding('VISIT-coverage', f'{rel}:{cls.name}', '',
                                f'{cls.name} holds child expressions ({holds}) but is not an Expression: '
                                f'base.visit skips it, so what it holds gets no program id, no rule '
                                f'resolution and no skip_ignored', f'{rel}:{cls.name}'))
    # visit itself: descends into Expression.__dict__ values, lists and tuples
    base = load.parse('sourcer/expressions/base.py')
    v = load.functions_of(base).get('visit')
    if v is None:
        raise AnalysisError('anchor base.visit vanished')
    src = ast.unparse(v)
    for needle, what in (('__dict__', 'attributes of an expression'), ('list', 'lists'), ('tuple', 'tuples')):
        rep.oblige(needle in src)
        if needle not in src:
            rep.add(Finding('VISIT-coverage', 'sourcer/expressions/base.py:visit', needle,
                            f'base.visit no longer descends into {what}', 'sourcer/expressions/base.py:visit'))
    rep.count('classes of the expression package examined', n)


def interception_table(rep):
    """names `hasattr(ex, left.name)` captures = namespace of expressions/__init__ (computed)"""
    tree = load.parse('sourcer/expressions/__init__.py')
    names = []
    for n in tree.body:
        if isinstance(n, ast.ImportFrom):
            names += [a.asname or a.name for a in n.names]
    documented = {'Apply', 'Backtrack', 'Byte', 'Choice', 'Discard', 'Expect', 'ExpectNot', 'Fail', 'Left', 'Let',
                  'List', 'Longest', 'Opt', 'Regex', 'Right', 'Sep', 'Seq', 'Skip', 'Some', 'Str', 'Where'}
    rep.count('names intercepted before user templates', len(names))
    extra = sorted(set(names) - documented)
    rep.sample({'intercepted names beyond the documented constructors': extra})
    for nm in extra:
        rep.add(Finding('INTERCEPT-table', 'sourcer/translator.py:_create_parsing_expression', nm,
                        f'a template call `{nm}(...)` is intercepted as the internal name expressions.{nm} '
                        f'instead of calling the user\'s rule or class of that name',
                        'sourcer/translator.py:_create_parsing_expression (hasattr(ex, left.name))'))
    tr = load.read('sourcer/translator.py')
    if 'hasattr(ex, left.name)' not in tr:
        rep.note('interception no longer uses hasattr(ex, left.name); table rule needs review')


def run(rep, tier):
    rep.explanation = (
        'Route grammars with a template called with every kind of argument (literal, rule reference, '
        'local reference, compound without and with 1/2/3 captured names, keyword literal, keyword '
        'reference, inline Python, byte literal, nested call; also under ignore declarations) are '
        'emitted in both conventions. For every request and every _ParseFunction / literal wrapper the '
        'callee definition is resolved and its positional arity, keyword names and convention prefix '
        'are compared with what the driver, _ParseFunction.__call__ and the wrappers will pass; dict / '
        'list displays in a memo key are violations; a locally bound name must be emitted as the local, '
        'not as the rule of the same name. Sibling rule on argumentize overrides, visitor coverage '
        'for argument holders, and the table of names intercepted before user templates.')
    rep.not_decided += ['equivalence with textual expansion on inputs (follows for the decided part from C01: '
                        'a parameter is a request with the weakest summary)',
                        'hashability of user-supplied argument values (run-time values)']
    for rid, txt in [
        ('CONV-prefix', 'every parse function starts with the convention prefix'),
        ('CONV-arity', 'every callee receives exactly the extra positionals / keywords its definition takes'),
        ('CONV-hashable', 'no dict/list/set display inside a memo key'),
        ('LOCAL-shadow', 'locally bound names are emitted as locals, not as rules of the same name'),
        ('ARG-wrap-owner', 'only Str / Byte arguments are wrapped into values that compare by text (memo keys)'),
        ('ARG-captures', 'a compound template argument is handed exactly the local names it uses (free variables '
                         'of the skeleton object) at the place of the call'),
        ('ARG-by-name', 'a keyword argument travels as (name, value) in the call object; it is never turned into a '
                        'position by a declaration seen at compile time (the callee is late-bound)'),
        ('SIBLING-argumentize', 'no argumentize override calls itself with unchanged arguments'),
        ('VISIT-coverage', 'every holder of child expressions is reached by base.visit'),
        ('INTERCEPT-table', 'only the documented constructor names are intercepted before user templates'),
        ('ROUTE-raises', 'the translator compiles every template route without raising'),
    ]:
        rep.rule(rid, txt)
    found, stats, nmods = routes.run(rep, 'C06', ['CONV-', 'LOCAL-shadow', 'ENTRY-params', 'ADAPTOR', 'ARG-'],
                                     label_filter=lambda msg: msg.startswith(('templates', 'shadow', 'let', 'classes', 'inline-python',
                                                                              'deep-nesting', 'runtime', 'sourcer/')))
    rep.floor('route facts: keyword_call_sites', stats.get('keyword_call_sites', 0), 8)
    rep.floor('route modules emitted', nmods, 26)
    rep.floor('call sites examined', stats['callsites'], 200)
    # C.parse(args) instantiates the class template with the caller's values: captured outside the entry closure
    from . import shared
    shared.entry_closure_rule(rep)
    # a parameter is a reference with the weakest summary: it may fail after consuming (the argument
    # can be any parsing expression), so Ref's static flags must say so for local names too
    from .. import e1run
    from . import shared
    shared.describe_rules(rep, only=('G2-cp-sound', 'G2-as-sound', 'S-ref'))
    total = e1run.run(rep, ['Ref'], tier, select=lambda f: f['rule'] in ('G2-cp-sound', 'G2-as-sound', 'S-ref',
                                                                       'F0-flags-exclusive'))
    rep.floor('configurations of Ref', total.get('Ref', 0), 12)
    sibling_argumentize(rep)
    visitor_coverage(rep)
    interception_table(rep)
    from .. import controls
    controls.route_controls(rep)
