from sourcer import Grammar
g = Grammar('Rule(x) = x << "!"\nstart = Rule("a")')   # user template named like an internal class
print(g.parse('a!'))
