from sourcer import Grammar
import sys
A = Grammar('grammar probe_f7_a\nstart = X*\nX = "a" | "b"\nignore Space = " "')
try:
    B = Grammar('grammar probe_f7_b extends probe_f7_a\nignore Comment = /#[^\\n]*/')
    print(B.parse('a b #c'), A.parse('a b'))
except Exception as e:
    print('ESCAPED', type(e).__name__, e); sys.exit(1)
