def choice_farthest(rep, tier):
    pass
