#!/usr/bin/env python3
"""Regenerates MANIFEST.json from the table below (run by hand after adding a check)."""
import json, os
HERE = os.path.dirname(os.path.abspath(__file__))
CLAIMED = {
 'C01': dict(technique='partial evaluation of the code generator (ast interpreter, abstract children) + explicit-state provenance dataflow over every emitted skeleton; assume/guarantee induction over expression trees; translator literal mapping by path-representative evaluation',
             text='For all grammars over the listed constructs (structural induction on per-class summaries): failed attempts leave no trace in the position register, the static flags are sound, register protocol, and the PEG position/value-flow table hold for every configuration of every class in both calling conventions. Decides the structural clause, not parse results on inputs.',
             note='Assumes children obey their summaries (induction hypothesis), CPython semantics of emitted statements, outsourcer rendering. Not decided: regex engine behaviour, value equality on inputs, termination.', ref='3.1, 4 C01'),
 'C02': dict(technique='partial evaluation of OperatorTable._compile + provenance dataflow with ghost state over the emitted shunting-yard loop (operator pending, ended by restore, prefix operator committed before the final truncation); finite evaluation of the emitted precedence/associativity decision chain; placement rule for the non-associativity test',
             text='For every table shape x child flag state x convention: the table ends only after an operand or postfix operator, restores of the position saved before a consumed operator are terminal, no trace of failed attempts, sound flags; associativity ids of create() agree with the constants tested in the emitted loop and the decision is reduce/end/shift as precedence dictates; the conflict test sits inside the reduction loop. Structural clauses only.',
             note='Not decided: that shunting-yard builds the unique precedence tree for arbitrary token sequences. Assumes operator expressions are not always-succeeding.', ref='4 C02'),
 'C03': dict(technique='partial evaluation of List/Sep._compile for every bound spelling / option combination + provenance dataflow with ghost state (bound tests, separator seen, last appended); ghost rule that kept separators and elements alternate; sibling comparison of int/str bound spellings; translator repeat mapping incl. zero and name bounds; atomicity of compound inline-Python bounds in the emitted length tests',
             text='Upper-bound test on every path from append to next attempt; lower-bound test guards success; trailing separator consumed iff allow_trailer; allow_empty/require_separator guard success; int/str spellings of bounds handled alike; G1-G3 so an incomplete repetition leaves no trace.',
             note='Assumes min_len <= max_len for symbolic bounds. Not decided: greediness on inputs, element values.', ref='4 C03'),
 'C04': dict(technique='module-level partial evaluation of the translator on route grammars with ignore declarations + object-graph rule (every literal flagged) + request-order rule on the emitted start function + call-graph who-may-call rule + E1 literal/Skip skeleton specs; routes: named/anonymous/several ignore rules, lookaheads, class start (also with a leading constant member), sub-grammars with and without a start of their own',
             text='Structural half: every literal (also in ignored rules, template and keyword arguments, class members) skips after a match and only literals do; the start function first skips; the synthetic rule is Skip over exactly the ignored rules; the skip request is issued on the success path with the literal end; nobody else may skip.',
             note='Not decided: the second sentence of the property (lengthening an ignorable run changes no value). Known finding: combined ignore declarations (base and sub-grammar both declare patterns).', ref='4 C04'),
 'C05': dict(technique='E1 provenance rule on binders (Let, Seq names) + local-store rule + structured liveness over skeletons (scratch locals live across a sub-expression are numbered by the builder) + route rules on shadowing, nested let scope and argument captures (free variables of skeleton objects vs. emitted _ParseFunction constructions) + marker-text rule for description text emitted verbatim (free-variable protocol) + flag soundness of Where/Apply + generated class table agreement',
             text='Bound names hold the value of their expression at every later child start, are plain locals of the rule frame, and are emitted as locals even when a rule has the same name; Where/Apply value flow; class field tables/ctor args/member kinds agree.',
             note='Not decided: what user Python computes. Known findings: inline Python, repeat counts and class fields are invisible to freevars().', ref='4 C05'),
 'C06': dict(technique='def/call conformance over emitted route modules (both conventions): every request, _ParseFunction, literal wrapper resolved to its definition and compared in arity/keywords/prefix; hashability of memo-key displays; argument-capture rule; adaptor rules on the runtime wrappers (path-based); sibling and visitor-coverage rules; computed interception table',
             text='Every way a template argument is packaged (literal, reference, local, compound with 0-3 captured names, keyword, inline Python, byte, nested call) reaches a callee that accepts exactly what it will be passed, in both conventions.',
             note='Not decided: equivalence with textual expansion on inputs; hashability of run-time argument values. Known findings: parameterised-rule entry, intercepted names.', ref='4 C06'),
 'C07': dict(technique='symbolic path enumeration of the trampoline loop with role inference (request/stack/memo) + def-use rules + stack-top mirror invariant for loop-carried variables; call-key rules on routes (R(), q() on a parameter, alias rules request instead of calling); leaf skeleton specs for request emission. Refuses (exit 2) driver representations outside the covered family',
             text='Generators are created only initially and on a memo miss; completion stores the result under the request key from the stack top; hits replay the stored object; memo is one fresh local dict per call; CALL tag cannot be confused with a status. Checked on every emitted runtime variant and the copy in sourcer/parser.py.',
             note='Trusts CPython dict/tuple hashing. Not decided: running time.', ref='4 C07'),
 'C08': dict(technique='entry-point conformance over emitted modules + path rules on driver exits and _finalize_parse_info + guarded-subscript rule + must-raise rule on generated error functions + constructor/raise-site agreement + bytes-safety rule (no mixing of the text with str constants on paths where it may be bytes) + sub-grammar import completeness',
             text='Every public entry point has (text, pos=0, fullparse=True) and tail-calls the driver; success goes through _finalize_parse_info, failure calls the error function which always raises ParseError; PartialParseError(nodes, position at pos, excerpt) exactly when fullparse and input remains, else the same value; table subscripts guarded.',
             note='Not decided: pos=k equals parsing text[k:] shifted. Known finding: entry point of parameterised rules.', ref='4 C08'),
 'C09': dict(technique='symbolic path enumeration of _extract_excerpt + affine entailment (Fourier-Motzkin) of slice/caret obligations per regime; transformer rule on the line/column map + line-break vocabulary rule (disallowed splitlines/expandtabs, only the line feed singled out) + per-call tables rule; path rules on generated error functions; exhaustive ordering evaluation of Choice farthest-failure epilogue',
             text='Per regime: line start <= slice start <= pos < slice end <= line end and caret = (pos - slice start) + len(prefix); line/column tables count from (1,0) with the documented transitions; error functions report (None, None) exactly at end of input and the failure position otherwise; Choice reports the farthest failure.',
             note='Preconditions: text[pos] not a line break, 0 <= pos < len(text). Not decided: which position is "the first character no token can match".', ref='4 C09'),
 'C10': dict(technique='E1 provenance rule on the span store of Seq-with-constructor + path rules on the conversion loop of _finalize_parse_info (iterates visit(nodes), inclusive end, one index per position, whole-text per-call tables, guards, raw spans converted once) + line/column map rules shared with C09 + identity de-duplication of visit + who-may-write rule',
             text='Recorded span = (entry position, success-exit position) on the new instance for every configuration; converted once for every instance reachable from the result in every emitted runtime variant.',
             note='Not decided: nesting/disjointness of spans on inputs.', ref='4 C10'),
 'C11': dict(technique='def/call conformance, context wiring, free-name closure and optimisation-independence over every route module emitted in both conventions; def-use rule on include_source, determinism rules on translator/grammar sources; the shipped sourcer/parser.py is one of the analysed modules',
             text='The only variant-dependent input to emission (uses_context) is threaded consistently through every signature and call on every route; emitted modules are self-contained; include_source and run-dependent values do not reach the text (except the recorded anonymous-rule name).',
             note='Not decided: equality of results between variants on inputs.', ref='4 C11'),
 'C13': dict(technique='emission of base / sub-grammar / third-level route modules + cross-module wiring rules (attributes read through _ctx by inherited code vs. assigned on the derived context; _super_ctx reads vs. parent context), lexical-super and late-binding rules (incl. context received as a parameter by every rule function and helper), inherited start and leading skip, parent objects only read (context and imported rule objects), path rule on _install_module',
             text='Non-local references are late-bound through _ctx (also rules passed as arguments), super is rooted at the module-global _super_ctx, contexts are completely wired at every level, the parent is only read, named modules are registered on every path.',
             note='Known finding: combined ignore declarations (anonymous ignore inheritance was repaired by repo fix 2ace552).', ref='4 C13'),
 'C14': dict(technique='symbolic path enumeration of ParsedObject.__eq__/__hash__/_asdict/_replace/_hash + table agreement rules on node classes and generated classes (path-based stores, repr rendered parts) + __getattr__ copy-safety rule',
             text='Equality is class-test-then-fields over exactly _fields, hashing covers the same fields through a container-aware helper, neither reads metadata or identity; _replace constructs through the class; field tables, constructors and repr agree; copy/pickle cannot recurse in __getattr__.',
             note='Not decided: == being an equivalence for arbitrary user field values.', ref='4 C14'),
 'C15': dict(technique='symbolic path enumeration of one iteration of the visit/traverse work loops (work stack found by role) + LIFO/reversed, children, identity-dedup (only ids, only expandable nodes, every expansion guarded, visited set only grows), finished-marker and no-recursion rules',
             text='Per-iteration rules that give, by induction on the stack, parents-first left-to-right enumeration with identity de-duplication of expandable nodes only and properly nested traverse events.',
             note='Event sequences on concrete trees are not re-derived.', ref='4 C15'),
 'C16': dict(technique='symbolic path enumeration of _transform and the callback chain + purity (no store rooted at the input), post-order, metadata-guard (and: new objects start with empty metadata) and order rules; _replace rule shared with C14 (built through the class, fill decided by `field not in kw` alone)',
             text='Post-order rebuild, identity-based change detection, element-wise lists, unchanged leaves, no mutation of the input, guarded metadata copy, callbacks in order.',
             note='Not decided: exactly-once when callbacks alias nodes.', ref='4 C16'),
 'C17': dict(technique='effect rule "may suspend" on spill helpers emitted for a deep-nesting route (both conventions) + free-name closure inside helpers + context-parameter rule + allocation log of the real CodeBuilder during route emission (a temporary handed out k times lives in k functions; one rule per nesting depth crosses every block-budget threshold) + call-graph cycle check on driver and walkers, no structural hashing/comparison of nodes inside them + no-direct-rule-call rule',
             text='Helpers whose body suspends are generators delegated to with yield from and return the register triple; callers assign exactly the triple; helpers get every name they read; rule recursion only through requests; driver/walkers cycle-free.',
             note='Not decided: memory limits, CPython nesting limits.', ref='4 C17'),
 'C18': dict(technique='lexical scope resolution of every store/mutation root in all functions of the emitted runtimes, emitted route modules, shipped parser, grammar.py, translator.py, expressions/*.py; mutable-default and decorator rules; per-call locals rule on the driver; parent-readonly rule on sub-grammar modules',
             text='Nothing written inside a function outlives the call except through one named exception (sys.modules in _install_module); memo/stack are per-call locals; emitted rule code stores only through locals.',
             note='Thread scheduling itself is not modelled (nothing is shared).', ref='4 C18'),
 'C19': dict(technique='evaluation of translator._create_parsing_expression by the ast interpreter on both syntax trees of each documented spelling pair, canonical comparison - 91 pairs incl. compositional ones (operator applied to a repetition/option/choice/sequence operand) and name/zero bounds; precedence tags of the shipped Expr table vs. documented order',
             text='Translator half: both spellings of every pair build the same expression object; Expr rows are tagged in the documented order, binary rows left-associative.',
             note='Not decided: lexical alternatives of the metagrammar (input-level behaviour of the generated parser).', ref='4 C19'),
 'C20': dict(technique='computed namespace tables: identifiers stored by the emitted skeletons of every class configuration and by route modules that the configuration did not choose (per scope), bare-name global/builtin reads (symbol tables of emitted modules), reserved class-body names, intercepted names, user keywords spread into module functions, invented module-level names vs. the namespaces derived from user names, keywords of the shipped metagrammar parser matched as bare literals; every user-space instance must be listed',
             text='Every generated identifier that can meet a user identifier is enumerated from the source; the instances existing today are recorded as known findings, any new one is a violation.',
             note='All current instances are genuine collisions (probes under findings/probes), recorded as known findings; a new instance is a violation.', ref='4 C20'),
}

# rules added by the later seeding rounds (appended to the technique text)
EXTRA = {
 'C01': '; spelling pairs of | (compound operands stay whole) shared with C19',
 'C15': '; truthiness decisions on nodes when parsed objects can be falsy; the visited set belongs to one walk',
 'C14': '; copy-protocol hooks must carry _metadata',
 'C11': '; def-use rule: the description text reaches the metagrammar parser unmodified',
 'C02': '; evaluation of the emitted postfix reduction test for every stack depth / row relation; OperatorTable.create partially evaluated on every sequence of row kinds (levels strictly increase); forms of one bucket (operand + mixfix forms, rows of one kind) combined with Longest in row order',
 'C03': '; atomicity rule on compound bound texts; Choice/Longest/Opt configurations with a consuming alternative (an incomplete list leaves no trace)',
 'C05': '; marker-based free-variable protocol on skeletons; E1 rules on the List configurations with name bounds; inline Python evaluated in place (route inline-python); memo per call; Let binds only on success of the bound expression; entry-closure capture rule; call-object key covers func, args and kwargs; inline-Python repetition counts stay one operand of the emitted length tests (bound atomicity)',
 'C06': '; wrapper-owner rule; parameter-order rule; keyword arguments travel by name in call objects of named grammars; entry-closure capture rule (class parameters captured outside the generated entry lambda)',
 'C07': '; every path that starts a generator has consulted the memo; driver representation with the active frame outside the stack; a rule passed as a template argument is emitted as the callee a plain reference requests (same memo key; Ref.argumentize skeletons)',
 'C08': '; driver coordinates not rebound; memo per call; the value leaves _finalize_parse_info only after the conversion walk; conversion walk rules (identity de-duplication, every object once); entry-closure capture rule; status register holds booleans only (E1 protocol rule on every expression class)',
 'C09': '; position functions read no module-level container and carry no decorator; last_position built from the unmoved end position; failure exits of the lookaheads leave the start position',
 'C10': '; position functions read no module-level container and carry no decorator; second line-map representation (index of the last line feed); span start captured before anything moves the position in every emitted class function; every match builds a fresh instance to carry its span',
 'C13': '; import-shadow rule; synthetic ignore rule reaches named patterns by late-bound reference (anonymous ones may be matched in place); only explicit super.R reads the lexical parent context; rule functions store nothing computed from their context at module level; lexical store rule on grammar.py (ancestor descriptions are read afresh on every Grammar() call, no cache keyed by module name)',
 'C16': '; identity-keyed table rule, single-pass rule, object-returned-without-callbacks rule, metadata goes onto a copy of the callback result (never into the object a callback returned); only lists are containers; truthiness rule',
 'C17': '; binders and never-failing nodes at every depth of the split threshold; a driver step never walks its own stack',
 'C18': '; namespace mutation rule (vars()/globals()/__dict__); inline Python of the grammar evaluated inside rule functions, never hoisted to module level (route inline-python); stores into class objects (cls / type(x) / x.__class__)',
 'C19': '; zero and name bounds in repeat mapping; compound operands of | against Choice(compound, b); bound atomicity',
 'C20': '; keyword-prefix rule on the metagrammar; derived-namespace rule on invented module-level names; attribute namespace rule (ParsedObject and generated class bodies define no public name next to user members); no builtins/keyword table consulted by the generator',
}
NA = {
 'C12': 'Bootstrap fixed point compares outputs of executing the generator across generations; any static surrogate is either a text comparison that fires on harmless edits or a re-execution of the generator (DESIGN.md section 6).',
}
PENDING = 'check under construction in this session; not claimed yet'
ALL = ['C%02d' % i for i in range(1, 21)]
checks = []
for pid in ALL:
    if pid in CLAIMED:
        c = CLAIMED[pid]
        checks.append({
            'property_id': pid,
            'quick_cmd': f'./check {pid} --tier quick',
            'thorough_cmd': f'./check {pid} --tier thorough',
            'evidence_file': f'/verif/evidence/{pid}.json',
            'replay_cmd_template': f'./check {pid} --replay {{path}}',
            'engine': 'sva',
            'level_claimed': {'category': 'other', 'text': c['text'], 'design_ref': c['ref']},
            'level_note': c['note'],
            'technique': c['technique'] + EXTRA.get(pid, ''),
        })
na = [{'property_id': p, 'reason': NA.get(p, PENDING)} for p in ALL if p not in CLAIMED]
m = {
 'version': 1,
 'setup_cmd': './check --selfcheck',
 'hooks': {'guard': 'SOURCER_VERIF', 'enable': 'none needed: the checks are static and read the working tree',
           'baseline_off_cmd': 'cd /repo && /venv/bin/python -m pytest -q -p no:cacheprovider tests',
           'source_commits': [], 'add_only': True},
 'engines': [{'name': 'sva', 'path': '/verif/sva', 'serves_properties': sorted(CLAIMED),
              'kind_free_text': 'repository-specific static analysis: ast interpreter of the code generator (MetaEval), provenance dataflow over emitted skeletons, CFG/path rules over runtime templates, def/call agreement checks'}],
 'checks': checks,
 'not_applicable': na,
 'notes': 'All checks are static analysis of /repo\'s working tree (honours VERIF_REPO). Exit 2 + ANALYSIS-ERROR means the analysis could not decide (vanished anchor / unknown idiom), never a verdict.',
}
json.dump(m, open(os.path.join(HERE, 'MANIFEST.json'), 'w'), indent=1)
print('claimed', sorted(CLAIMED), 'na', [x['property_id'] for x in na])
