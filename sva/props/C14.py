"""C14 - parsed objects are values (structural clauses)."""
import ast

from ..common import Finding, AnalysisError
from .. import load, objects
from . import C15

RULES = [
    ('C14-eq-hash', '__eq__ tests the class before the fields and compares exactly self._fields; __hash__ '
                    'combines _hash() of the same fields; neither reads metadata or identity; _hash falls '
                    'back to element-wise hashing for list/tuple/dict'),
    ('C14-asdict', '_asdict is {f: getattr(self, f) for f in self._fields}'),
    ('C16-replace', '_replace builds the copy through the class, fills missing fields from self, copies '
                    'metadata onto the copy, never stores into self'),
    ('C14-copy-safe', 'no __getattr__ reads through self an attribute that only __init__ creates'),
    ('C14-field-tables', 'Infix/Prefix/Postfix (and generated classes): _fields, __init__ parameters, '
                         'attribute stores and __repr__ agree'),
    ('C14-metadata', 'every object gets its own _Metadata; update() only reads its argument'),
]


def run(rep, tier):
    rep.explanation = (
        'Symbolic path enumeration of ParsedObject.__eq__/__hash__/_asdict/_replace and _hash plus '
        'table-agreement rules on Infix/Prefix/Postfix and on the class bodies the generator emits '
        '(field table, constructor parameters, attribute stores, repr). Decides: equality is '
        'class-test-then-fields over exactly _fields; hashing covers the same fields through a helper '
        'that recurses into unhashable containers; neither looks at metadata or identity; _replace '
        'constructs through the class (fresh caches), copies metadata, leaves the original untouched; '
        'copy/pickle safety of __getattr__; repr lists the constructor arguments in order.')
    rep.not_decided += ['== being an equivalence for arbitrary user field values']
    for r, t in RULES:
        rep.rule(r, t)
    for what, tree, rel in C15.subjects():
        found = []
        bad = lambda rule, msg: found.append((rule, msg))
        n = objects.check_eq_hash(tree, what, bad)
        objects.check_asdict(tree, what, bad)
        objects.check_replace(tree, what, bad)
        ng = objects.check_getattr_safety(tree, what, bad)
        ng += objects.check_copy_hooks(tree, what, bad)
        nn = objects.check_node_classes(tree, what, bad)
        objects.check_metadata(tree, what, bad)
        found[:] = [(r, m) for r, m in found if r != 'C16-metadata']     # transform's concern (C16)
        rep.count('runtime copies analysed')
        rep.count('paths enumerated', n)
        rep.count('classes with __getattr__ examined', ng)
        rep.count('node classes examined', nn)
        rep.obligations += len(RULES)
        rep.discharged += len(RULES) - len({r for r, _ in found})
        for rule, msg in found:
            rep.add(Finding(rule, f'{rel}:ParsedObject', '', msg, f'{rel} (runtime classes)'))
    rep.floor('runtime copies analysed', rep.instances.get('runtime copies analysed', 0), 3)
    rep.floor('classes with __getattr__ examined', rep.instances.get('classes with __getattr__ examined', 0), 3)
    # generated class bodies (shared with C05 d)
    from .. import routes
    routes.class_tables(rep, only_rules=('C14-field-tables',))
    from .. import controls
    controls.walker_controls(rep)
