"""C18 (and C05 a): no code inside a function writes to state that outlives the call.

For every function (methods and nested functions included) of a module the root name of
every store target / mutating call is resolved lexically: parameter, local, local of an
enclosing *function* (call-local closure) are fine; a module-level name, a class object,
`_ctx` / `_super_ctx`, a function object or an imported module is shared state."""
import ast
import builtins

MUTATORS = {'append', 'extend', 'insert', 'pop', 'remove', 'clear', 'sort', 'reverse', 'add',
            'discard', 'update', 'setdefault', 'popitem', 'appendleft', 'popleft',
            '__setitem__', '__delitem__', '__setattr__'}

ALLOWED_DECORATORS = {'staticmethod', 'classmethod', 'property', 'contextmanager'}


def root_of(node):
    while isinstance(node, (ast.Attribute, ast.Subscript, ast.Starred)):
        node = node.value
    if isinstance(node, ast.Call):
        return None
    return node.id if isinstance(node, ast.Name) else None


def through_class_object(target, cls_params):
    """the store target is reached through a class object: the class parameter of __new__ / a classmethod,
    type(x) or x.__class__"""
    node = target.value
    while True:
        if isinstance(node, ast.Name):
            return node.id in cls_params
        if isinstance(node, ast.Call):
            return isinstance(node.func, ast.Name) and node.func.id == 'type' and len(node.args) == 1
        if isinstance(node, ast.Attribute) and node.attr == '__class__':
            return True
        if isinstance(node, (ast.Attribute, ast.Subscript)):
            node = node.value
            continue
        return False


def own_nodes(fn):
    stack = list(fn.body)
    while stack:
        n = stack.pop()
        yield n
        if isinstance(n, (ast.FunctionDef, ast.AsyncFunctionDef, ast.Lambda, ast.ClassDef)):
            continue
        for c in ast.iter_child_nodes(n):
            if isinstance(c, (ast.FunctionDef, ast.AsyncFunctionDef, ast.Lambda, ast.ClassDef)):
                if isinstance(c, (ast.FunctionDef, ast.AsyncFunctionDef, ast.ClassDef)):
                    yield c
                continue
            stack.append(c)


def locals_of(fn):
    a = fn.args
    names = {x.arg for x in a.posonlyargs + a.args + a.kwonlyargs}
    if a.vararg:
        names.add(a.vararg.arg)
    if a.kwarg:
        names.add(a.kwarg.arg)
    declared = set()
    for n in own_nodes(fn):
        if isinstance(n, (ast.Global, ast.Nonlocal)):
            declared |= set(n.names)
    for n in own_nodes(fn):
        if isinstance(n, ast.Name) and isinstance(n.ctx, (ast.Store, ast.Del)):
            names.add(n.id)
        elif isinstance(n, (ast.FunctionDef, ast.ClassDef)):
            names.add(n.name)
        elif isinstance(n, (ast.Import, ast.ImportFrom)):
            for al in n.names:
                names.add((al.asname or al.name).split('.')[0])
        elif isinstance(n, ast.ExceptHandler) and n.name:
            names.add(n.name)
    # comprehension variables
    for n in own_nodes(fn):
        if isinstance(n, ast.comprehension):
            for x in ast.walk(n.target):
                if isinstance(x, ast.Name):
                    names.add(x.id)
    return names - declared, declared


def scan(tree, what, allow=()):
    """-> (findings[(rule, func qualname, message)], number of functions scanned)"""
    out = []
    nfunc = [0]
    module_names = set()
    for st in tree.body:
        for n in ast.walk(st) if not isinstance(st, (ast.FunctionDef, ast.ClassDef)) else [st]:
            if isinstance(n, ast.Name) and isinstance(n.ctx, ast.Store):
                module_names.add(n.id)
            if isinstance(n, (ast.FunctionDef, ast.ClassDef)):
                module_names.add(n.name)
            if isinstance(n, (ast.Import, ast.ImportFrom)):
                for al in n.names:
                    module_names.add((al.asname or al.name).split('.')[0])

    def visit(fn, qual, enclosing_locals, in_class):
        nfunc[0] += 1
        loc, declared = locals_of(fn)
        visible_local = loc | enclosing_locals

        def shared(root):
            if root is None:
                return False
            if root in visible_local and root not in declared:
                return False
            return True

        for d in fn.decorator_list:
            dn = ast.unparse(d).split('(')[0].split('.')[-1]
            if dn not in ALLOWED_DECORATORS:
                out.append(('C18-no-cache', qual, f'{what}: {qual} is decorated with @{ast.unparse(d)} '
                                                  f'(a caching/registering decorator keeps state across calls)'))
        cls_params = set()
        if in_class and fn.args.args:
            decos = {ast.unparse(d).split('(')[0].split('.')[-1] for d in fn.decorator_list}
            if fn.name in ('__new__', '__init_subclass__', '__class_getitem__') or 'classmethod' in decos:
                cls_params.add(fn.args.args[0].arg)
        a = fn.args
        for dflt in list(a.defaults) + [k for k in a.kw_defaults if k is not None]:
            if isinstance(dflt, (ast.List, ast.Dict, ast.Set, ast.ListComp, ast.DictComp, ast.SetComp)) or (
                    isinstance(dflt, ast.Call) and isinstance(dflt.func, ast.Name)
                    and dflt.func.id in ('dict', 'list', 'set', 'defaultdict')):
                out.append(('C18-no-cache', qual, f'{what}: {qual} has a mutable default argument '
                                                  f'({ast.unparse(dflt)}): it is shared by all calls'))
        for n in own_nodes(fn):
            # the namespace of an object that exists independently of this call (a module found in
            # sys.modules, a class, a context) is not rewritten through vars() / __dict__ / globals()
            if isinstance(n, ast.Call) and isinstance(n.func, ast.Attribute) \
                    and n.func.attr in ('update', 'clear', 'pop', 'popitem', 'setdefault', '__setitem__', '__delitem__'):
                recv = n.func.value
                ns = (isinstance(recv, ast.Call) and isinstance(recv.func, ast.Name) and recv.func.id in ('vars', 'globals')) \
                    or (isinstance(recv, ast.Attribute) and recv.attr == '__dict__')
                if ns and (qual, 'namespace') not in allow:
                    out.append(('C18-no-shared-store', qual,
                                f'{what}: {qual} rewrites a namespace in place (`{ast.unparse(n)[:70]}`): whoever '
                                f'holds the object (an earlier module of that name, its sub-grammars) sees the change'))
            if isinstance(n, ast.Subscript) and isinstance(n.ctx, (ast.Store, ast.Del)):
                recv = n.value
                ns = (isinstance(recv, ast.Call) and isinstance(recv.func, ast.Name) and recv.func.id in ('vars', 'globals')) \
                    or (isinstance(recv, ast.Attribute) and recv.attr == '__dict__')
                if ns and (qual, 'namespace') not in allow:
                    out.append(('C18-no-shared-store', qual,
                                f'{what}: {qual} stores into a namespace (`{ast.unparse(n)[:70]}`)'))
            if isinstance(n, (ast.Global, ast.Nonlocal)) and isinstance(n, ast.Global):
                stored = {x.id for x in own_nodes(fn) if isinstance(x, ast.Name)
                          and isinstance(x.ctx, (ast.Store, ast.Del))} & set(n.names)
                for nm in sorted(stored):
                    out.append(('C18-no-shared-store', qual, f'{what}: {qual} assigns the module-level name '
                                                             f'{nm} (global statement)'))
            targets = []
            if isinstance(n, ast.Assign):
                targets = n.targets
            elif isinstance(n, (ast.AugAssign, ast.AnnAssign)):
                targets = [n.target]
            elif isinstance(n, ast.Delete):
                targets = n.targets
            for t in targets:
                for x in ([t] if not isinstance(t, (ast.Tuple, ast.List)) else t.elts):
                    # the class object outlives every call: a store through the class parameter of __new__ / a
                    # classmethod, through type(x) or x.__class__ is a store into state shared by all instances
                    if isinstance(x, (ast.Attribute, ast.Subscript)) and through_class_object(x, cls_params):
                        out.append(('C18-no-shared-store', qual,
                                    f'{what}: {qual} stores through `{ast.unparse(x)}` into the class object: it is '
                                    f'shared by every instance, every parse call and every thread'))
                        continue
                    if isinstance(x, (ast.Attribute, ast.Subscript)):
                        r = root_of(x)
                        if shared(r) and (qual, r) not in allow:
                            out.append(('C18-no-shared-store', qual,
                                        f'{what}: {qual} stores through `{ast.unparse(x)}`: `{r}` is not local '
                                        f'to the call (module-level object, class or context)'))
            if isinstance(n, ast.Call) and isinstance(n.func, ast.Attribute) and n.func.attr in MUTATORS:
                r = root_of(n.func.value)
                if shared(r) and (qual, r) not in allow and (r in module_names or r in ('_ctx', '_super_ctx')):
                    out.append(('C18-no-shared-store', qual,
                                f'{what}: {qual} calls `{ast.unparse(n.func)}(...)`: `{r}` is a module-level '
                                f'object shared by all calls'))
            if isinstance(n, ast.Call) and isinstance(n.func, ast.Name) and n.func.id == 'setattr' and n.args:
                r = root_of(n.args[0])
                if shared(r) and (qual, r) not in allow:
                    out.append(('C18-no-shared-store', qual, f'{what}: {qual} calls setattr on `{r}`'))
            if isinstance(n, ast.FunctionDef):
                visit(n, qual + '.<locals>.' + n.name, visible_local, False)
            if isinstance(n, ast.ClassDef):
                for m in n.body:
                    if isinstance(m, ast.FunctionDef):
                        visit(m, qual + '.<locals>.' + n.name + '.' + m.name, visible_local, True)

    def walk_top(body, prefix):
        for st in body:
            if isinstance(st, ast.FunctionDef):
                visit(st, prefix + st.name, set(), False)
            elif isinstance(st, ast.ClassDef):
                for m in st.body:
                    if isinstance(m, ast.FunctionDef):
                        visit(m, prefix + st.name + '.' + m.name, set(), True)
                    elif isinstance(m, ast.ClassDef):
                        walk_top([m], prefix + st.name + '.')
            elif isinstance(st, (ast.If, ast.Try, ast.With)):
                walk_top(getattr(st, 'body', []), prefix)
                walk_top(getattr(st, 'orelse', []), prefix)
    walk_top(tree.body, '')
    return out, nfunc[0]
