"""Symbolic path enumeration for ordinary Python functions (the runtime templates).

Not a solver: it only *builds terms*.  Every acyclic path through a function body is
enumerated; along a path each variable holds a term over the parameters
(('PARAM', name)), and the path records, in order,

  ('T', term, outcome, node)          a branch decision
  ('E', kind, target, value, node)    a store / mutation (kind: assign, attrstore, substore,
                                      call:<method>)
  ('X', term, node)                   an expression statement (call for effect)
  ('Y', term, node)                   a yield
  ('LOOP', node, bodypaths)           a loop whose body was enumerated separately

Loops: the body is enumerated once, from a head state in which every variable assigned in
the loop is ('PHI', name, loop-id); after the loop those variables are PHI as well.
"""
import ast
import itertools

from .common import AnalysisError, Unsupported

MAX_PATHS = 20000


class Path:
    __slots__ = ('env', 'steps', 'end')

    def __init__(self, env=None, steps=(), end=None):
        self.env = dict(env or {})
        self.steps = list(steps)
        self.end = end               # ('return', term, node) | ('raise', term, node) | ('fall',) |
                                     # ('break',) | ('continue',)

    def fork(self):
        return Path(self.env, self.steps, self.end)

    def tests(self):
        return [s for s in self.steps if s[0] == 'T']

    def events(self, kind=None):
        return [s for s in self.steps if s[0] == 'E' and (kind is None or s[1] == kind)]

    def unmutated_value(self, term):
        """an object reference whose object was not touched since it was bound stands for the value
        it was bound to (single-exit style: `result = f(x)` ... `return result`)"""
        if not (isinstance(term, tuple) and term[:1] == ('OBJ',)):
            return term
        name = term[1]

        def touches(steps):
            for s in steps:
                if s[0] == 'E' and s[1] != 'assign':
                    if contains(s[2], lambda x: x == term):
                        return True
                elif s[0] == 'LOOP':
                    if any(touches(bp.steps) for bp in s[2]) or any(
                            e[0] == 'E' and e[1] == 'assign' and e[2] == name for bp in s[2] for e in bp.steps):
                        return True
            return False
        last = None
        for i, s in enumerate(self.steps):
            if s[0] == 'E' and s[1] == 'assign' and s[2] == name:
                last = i
        if last is None or touches(self.steps[last + 1:]):
            return term
        return self.steps[last][3]

    def describe(self):
        out = []
        for s in self.steps:
            if s[0] == 'T':
                out.append(f'{"" if s[2] else "not "}{tfmt(s[1])}')
            elif s[0] == 'E':
                out.append(f'{s[1]} {s[2]} := {tfmt(s[3])}')
            elif s[0] == 'X':
                out.append(f'do {tfmt(s[1])}')
            elif s[0] == 'Y':
                out.append(f'yield {tfmt(s[1])}')
            elif s[0] == 'LOOP':
                out.append('loop')
        return ' ; '.join(out) + f' => {self.end[0] if self.end else "?"}'


def tfmt(t, n=160):
    def f(t):
        if isinstance(t, tuple):
            if t[:1] == ('PARAM',):
                return t[1]
            if t[:1] == ('VAR',):
                return t[1]
            if t[:1] == ('OBJ',):
                return '&' + t[1]
            if t[:1] == ('UNPACK',):
                return f'{f(t[1])}#{t[2]}'
            if t[:1] == ('CONST',):
                return t[1]
            if t[:1] == ('PHI',):
                return f'{t[1]}*'
            if t[:1] == ('ATTR',):
                return f'{f(t[1])}.{t[2]}'
            if t[:1] == ('SUB',):
                return f'{f(t[1])}[{f(t[2])}]'
            if t[:1] == ('CALL',):
                return f'{f(t[1])}(' + ', '.join(f(x) for x in t[2:]) + ')'
            if t[:1] == ('OP',):
                return f'({f(t[2])} {t[1]} {f(t[3])})'
            if t[:1] == ('CMP',):
                return f'({f(t[2])} {"/".join(t[1])} ' + ' '.join(f(x) for x in t[3:]) + ')'
            return '(' + ' '.join(f(x) for x in t) + ')'
        return str(t)
    s = f(t)
    return s if len(s) <= n else s[:n] + '...'


MUTATORS = {'append', 'extend', 'insert', 'pop', 'remove', 'clear', 'sort', 'reverse',
            'add', 'discard', 'update', 'setdefault', 'popitem', '__setitem__', '__delitem__',
            'difference_update', 'intersection_update', 'symmetric_difference_update',
            'send', 'throw', 'close'}


EMITTED_PREFIXES = ['_try_', '_parse_', '_raise_error']      # routes adds the helper prefix read off the generator
ANCHORS = {'_run', 'visit', 'traverse', 'transform', '_transform', '_finalize_parse_info', '_extract_excerpt',
           '_get_line_and_column', '_map_index_to_line_and_column', '_caret_at', '_hash', 'parse',
           '_wrap_string_literal', '_wrap_byte_literal'}
MODULE_HELPERS = {}


def set_module(tree):
    """module-level functions of the subject under analysis that are *not* anchors of a rule may be
    inlined wherever they are called as a whole statement / right-hand side (extract-function
    refactorings must not blind the rules)"""
    MODULE_HELPERS.clear()
    MODULE_STORES.clear()
    MODULE_CLASSES.clear()
    if tree is None:
        return
    for n in ast.walk(tree):
        if isinstance(n, ast.ClassDef):
            MODULE_CLASSES[n.name] = n
    # module-level containers: objects that outlive a call
    for n in tree.body:
        tg = n.targets if isinstance(n, ast.Assign) else [n.target] if isinstance(n, ast.AnnAssign) and n.value else []
        v = getattr(n, 'value', None)
        if tg and (isinstance(v, (ast.Dict, ast.List, ast.Set, ast.DictComp, ast.ListComp, ast.SetComp))
                   or (isinstance(v, ast.Call) and ast.unparse(v.func).split('.')[-1] in _CONTAINER_MAKERS)):
            for t in tg:
                if isinstance(t, ast.Name):
                    MODULE_STORES[t.id] = n
    # record types of the subject: Name = _nt('Name', 'a, b, c') / namedtuple(...)
    for n in tree.body:
        if isinstance(n, ast.Assign) and len(n.targets) == 1 and isinstance(n.targets[0], ast.Name) \
                and isinstance(n.value, ast.Call) and ast.unparse(n.value.func).split('.')[-1] in ('_nt', 'namedtuple') \
                and len(n.value.args) == 2 and all(isinstance(a, ast.Constant) for a in n.value.args):
            f = n.value.args[1].value
            fields = tuple(x for x in (f.replace(',', ' ').split() if isinstance(f, str) else f))
            RECORD_SIGS[n.targets[0].id] = fields
    for n in tree.body:
        if isinstance(n, ast.FunctionDef) and n.name not in ANCHORS and not n.name.startswith(
                tuple(EMITTED_PREFIXES)) and len(list(ast.walk(n))) < 400:
            MODULE_HELPERS[n.name] = n


MODULE_STORES = {}
MODULE_CLASSES = {}
_CONTAINER_MAKERS = {'dict', 'list', 'set', 'defaultdict', 'OrderedDict', 'WeakValueDictionary', 'WeakKeyDictionary',
                     'deque', 'Counter', 'ChainMap', 'bytearray', 'local'}
RECORD_SIGS = {'_Position': ('index', 'line', 'column'), '_PositionInfo': ('start', 'end'),
               '_Traversing': ('parent', 'field', 'child', 'is_finished')}


def canon_calls(t, sigs=RECORD_SIGS):
    """constructor calls of the runtime's record types with keyword arguments -> positional form"""
    if not isinstance(t, tuple):
        return t
    t = tuple(canon_calls(x, sigs) for x in t)
    if len(t) >= 2 and t[0] == 'CALL' and isinstance(t[1], tuple) and t[1][:1] == ('VAR',) and t[1][1] in sigs:
        sig = sigs[t[1][1]]
        pos = [a for a in t[2:] if not (isinstance(a, tuple) and a[:1] == ('KW',))]
        kws = {a[1]: a[2] for a in t[2:] if isinstance(a, tuple) and a[:1] == ('KW',) and a[1] is not None}
        if len(pos) + len(kws) == len(sig) == len(t) - 2 and all(k in sig[len(pos):] for k in kws):
            return t[:2] + tuple(pos) + tuple(kws[k] for k in sig[len(pos):])
    return t


def render_parts(t):
    """flatten a string-building term (f-string, +, %, str.format, repr()/str()) into a list of
    ('lit', text) | ('fmt', term, conversion char or None); None when the shape is not understood"""
    import string as _string
    if not isinstance(t, tuple):
        return None
    if t[0] == 'CONST':
        try:
            v = ast.literal_eval(t[1])
        except Exception:
            return None
        return [('lit', v)] if isinstance(v, str) else None
    if t[0] == 'FSTR':
        out = []
        for x in t[1:]:
            if x[0] == 'CONST':
                out.append(('lit', ast.literal_eval(x[1])))
            else:
                out.append(('fmt', x[1], chr(x[2]) if x[2] and x[2] > 0 else None))
        return out
    if t[0] == 'OP' and t[1] == 'Add':
        a, b = render_parts(t[2]), render_parts(t[3])
        return None if a is None or b is None else a + b
    if t[0] == 'CALL' and t[1] in (('VAR', 'repr'), ('VAR', 'str')) and len(t) == 3:
        return [('fmt', t[2], 'r' if t[1][1] == 'repr' else None)]
    if t[0] == 'OP' and t[1] == 'Mod' and t[2][0] == 'CONST':
        fmt = ast.literal_eval(t[2][1])
        if t[3][0] != 'TUPLE':
            # `fmt % x` formats x as one value only if x is not a tuple at run time: not a rendering
            # that holds for every value
            return None
        args = list(t[3][1:])
        out, i = [], 0
        import re as _re
        pos = 0
        for m in _re.finditer(r'%([rs%])', fmt):
            out.append(('lit', fmt[pos:m.start()]))
            pos = m.end()
            if m.group(1) == '%':
                out.append(('lit', '%'))
                continue
            if i >= len(args):
                return None
            out.append(('fmt', args[i], 'r' if m.group(1) == 'r' else None))
            i += 1
        out.append(('lit', fmt[pos:]))
        if i != len(args) or '%' in ''.join(x[1] for x in out if x[0] == 'lit' and x[1] != '%'):
            return None
        return out
    if t[0] == 'CALL' and isinstance(t[1], tuple) and t[1][0] == 'ATTR' and t[1][2] == 'format' \
            and t[1][1][0] == 'CONST':
        fmt = ast.literal_eval(t[1][1][1])
        args = [a for a in t[2:] if a[0] != 'KW']
        kws = {a[1]: a[2] for a in t[2:] if a[0] == 'KW'}
        out, auto = [], 0
        try:
            for lit, field, spec, conv in _string.Formatter().parse(fmt):
                if lit:
                    out.append(('lit', lit))
                if field is None:
                    continue
                if spec:
                    return None
                if field == '':
                    arg = args[auto]
                    auto += 1
                elif field.isdigit():
                    arg = args[int(field)]
                elif field in kws:
                    arg = kws[field]
                else:
                    return None
                out.append(('fmt', arg, conv))
        except (ValueError, IndexError):
            return None
        return out
    return None


class _ReplaceNode(ast.NodeTransformer):
    """replace the node marked `_lift_me` by another expression"""

    def __init__(self, old, new):
        self.new = new

    def visit(self, node):
        if getattr(node, '_lift_me', False):
            return self.new
        return self.generic_visit(node)


class copy:
    @staticmethod
    def deepcopy_keep(tree, marked):
        """deep copy of an expression in which the copy of `marked` carries the flag `_lift_me`"""
        import copy as _copy
        marked._lift_me = True
        try:
            return _copy.deepcopy(tree)
        finally:
            del marked._lift_me


class Enumerator:
    def __init__(self, global_names=(), helpers=None):
        self.npaths = 0
        self.loop_ids = itertools.count(1)
        self.global_names = set(global_names)
        self.local_defs = {}            # name -> FunctionDef of helpers defined inside the function
        self.helpers = dict(MODULE_HELPERS)  # module-level helper functions that may be inlined
        self.helpers.update(helpers or {})
        self.inline_depth = 0

    # ---- terms
    def val(self, e, env):
        if e is None:
            return ('CONST', 'None')
        if isinstance(e, ast.Name):
            return env.get(e.id, ('VAR', e.id))
        if isinstance(e, ast.Constant):
            return ('CONST', repr(e.value))
        if isinstance(e, (ast.List, ast.Tuple, ast.Set)):
            kind = {ast.List: 'LIST', ast.Tuple: 'TUPLE', ast.Set: 'SET'}[type(e)]
            return (kind,) + tuple(self.val(x, env) for x in e.elts)
        if isinstance(e, ast.Call):
            argv = []
            for a in e.args:
                av = self.val(a, env)
                if isinstance(av, tuple) and av[:1] == ('STAR',) and isinstance(av[1], tuple) \
                        and av[1][:1] in (('TUPLE',), ('LIST',)):
                    argv += list(av[1][1:])           # f(*(a, b)) is f(a, b)
                else:
                    argv.append(av)
            t = ('CALL', self.val(e.func, env)) + tuple(argv) + tuple(
                ('KW', k.arg, self.val(k.value, env)) for k in e.keywords)
            if e.keywords and isinstance(e.func, ast.Name) and e.func.id in RECORD_SIGS:
                sig = RECORD_SIGS[e.func.id]
                kws = {k.arg: self.val(k.value, env) for k in e.keywords if k.arg is not None}
                npos = len(e.args)
                if npos + len(kws) == len(sig) == len(t) - 2 and all(k in sig[npos:] for k in kws) \
                        and not any(isinstance(a, ast.Starred) for a in e.args):
                    t = t[:2 + npos] + tuple(kws[k] for k in sig[npos:])
            return t
        if isinstance(e, ast.Attribute):
            return ('ATTR', self.val(e.value, env), e.attr)
        if isinstance(e, ast.Subscript):
            return ('SUB', self.val(e.value, env), self.val(e.slice, env))
        if isinstance(e, ast.Slice):
            return ('SLICE', self.val(e.lower, env), self.val(e.upper, env), self.val(e.step, env))
        if isinstance(e, ast.BinOp):
            return ('OP', type(e.op).__name__, self.val(e.left, env), self.val(e.right, env))
        if isinstance(e, ast.UnaryOp):
            return ('UOP', type(e.op).__name__, self.val(e.operand, env))
        if isinstance(e, ast.Compare):
            return ('CMP', tuple(type(o).__name__ for o in e.ops), self.val(e.left, env)) + tuple(
                self.val(c, env) for c in e.comparators)
        if isinstance(e, ast.BoolOp):
            return ('BOOL', type(e.op).__name__) + tuple(self.val(v, env) for v in e.values)
        if isinstance(e, ast.IfExp):
            return ('IFEXP', self.val(e.test, env), self.val(e.body, env), self.val(e.orelse, env))
        if isinstance(e, (ast.Yield, ast.YieldFrom)):
            return ('YIELD', self.val(e.value, env))
        if isinstance(e, ast.Starred):
            return ('STAR', self.val(e.value, env))
        if isinstance(e, ast.JoinedStr):
            parts = []
            for v in e.values:
                if isinstance(v, ast.Constant):
                    parts.append(('CONST', repr(v.value)))
                else:
                    parts.append(('FMT', self.val(v.value, env), v.conversion))
            return ('FSTR',) + tuple(parts)
        if isinstance(e, (ast.GeneratorExp, ast.ListComp, ast.SetComp)):
            env2 = dict(env)
            gens = []
            for g in e.generators:
                it = self.val(g.iter, env2)
                for n in ast.walk(g.target):
                    if isinstance(n, ast.Name):
                        env2[n.id] = ('ITEM', n.id)
                gens.append(('GEN', ast.unparse(g.target), it) + tuple(self.val(c, env2) for c in g.ifs))
            return ('COMP', type(e).__name__, self.val(e.elt, env2)) + tuple(gens)
        if isinstance(e, ast.DictComp):
            env2 = dict(env)
            gens = []
            for g in e.generators:
                it = self.val(g.iter, env2)
                for n in ast.walk(g.target):
                    if isinstance(n, ast.Name):
                        env2[n.id] = ('ITEM', n.id)
                gens.append(('GEN', ast.unparse(g.target), it) + tuple(self.val(c, env2) for c in g.ifs))
            return ('DICTCOMP', self.val(e.key, env2), self.val(e.value, env2)) + tuple(gens)
        if isinstance(e, ast.Dict):
            return ('DICT',) + tuple((self.val(k, env) if k is not None else ('STARSTAR',),
                                      self.val(v, env)) for k, v in zip(e.keys, e.values))
        if isinstance(e, ast.Lambda):
            return ('LAMBDA', ast.unparse(e))
        if isinstance(e, ast.NamedExpr):
            v = self.val(e.value, env)
            if isinstance(e.target, ast.Name):
                env[e.target.id] = v           # the path's environment: later reads see the binding
            return v
        return ('EXPR', ast.unparse(e))

    @staticmethod
    def _walk_no_scopes(node):
        """sub-expressions evaluated when `node` is (not the bodies of lambdas / comprehensions)"""
        stack = [node]
        while stack:
            n = stack.pop(0)
            yield n
            if isinstance(n, (ast.Lambda, ast.GeneratorExp, ast.ListComp, ast.SetComp, ast.DictComp)):
                continue
            if isinstance(n, ast.BoolOp):
                stack[0:0] = [n.values[0]]        # later operands are evaluated conditionally
                continue
            stack[0:0] = list(ast.iter_child_nodes(n))

    # ---- enumeration
    def function(self, fn, params=None):
        """-> list of Path for a FunctionDef"""
        env = {}
        a = fn.args
        for x in a.posonlyargs + a.args + a.kwonlyargs:
            env[x.arg] = ('PARAM', x.arg)
        if a.vararg:
            env[a.vararg.arg] = ('PARAM', a.vararg.arg)
        if a.kwarg:
            env[a.kwarg.arg] = ('PARAM', a.kwarg.arg)
        if params:
            env.update(params)
        self.mutated = self.mutated_names(fn)
        paths = self.block(fn.body, [Path(env)])
        for p in paths:
            if p.end is None:
                p.end = ('fall',)
        return paths

    mutated = frozenset()

    def mutated_names(self, fn):
        """local names that are receivers of a mutating method call or bases of a subscript /
        attribute store: they are held as object references ('OBJ', name), not as the term of
        their initial value"""
        out = set()
        for n in ast.walk(fn):
            if isinstance(n, ast.Call) and isinstance(n.func, ast.Attribute) \
                    and n.func.attr in MUTATORS and isinstance(n.func.value, ast.Name):
                out.add(n.func.value.id)
            if isinstance(n, ast.Attribute) and n.attr in MUTATORS and isinstance(n.value, ast.Name) \
                    and isinstance(n.ctx, ast.Load):
                out.add(n.value.id)
            if isinstance(n, (ast.Subscript, ast.Attribute)) and isinstance(n.ctx, (ast.Store, ast.Del)) \
                    and isinstance(n.value, ast.Name):
                out.add(n.value.id)
        return out

    def block(self, stmts, paths):
        for st in stmts:
            live = [p for p in paths if p.end is None]
            done = [p for p in paths if p.end is not None]
            if not live:
                return done
            new = []
            for p in live:
                new += self.stmt(st, p)
            paths = done + new
            self.npaths = max(self.npaths, len(paths))
            if len(paths) > MAX_PATHS:
                raise AnalysisError('path budget exceeded')
        return paths

    def effects(self, e, p, node):
        """mutating method calls inside an expression -> events"""
        for n in ast.walk(e):
            if isinstance(n, ast.Call) and isinstance(n.func, ast.Attribute) and n.func.attr in MUTATORS:
                recv = self.val(n.func.value, p.env)
                args = tuple(self.val(a, p.env) for a in n.args)
                p.steps.append(('E', 'call:' + n.func.attr, recv, args, node))
            elif isinstance(n, ast.Call) and isinstance(n.func, ast.Name):
                # a hoisted bound method: add = xs.append ; add(v)
                t = p.env.get(n.func.id)
                if isinstance(t, tuple) and t[:1] == ('ATTR',) and len(t) == 3 and t[2] in MUTATORS \
                        and isinstance(t[1], tuple) and t[1][:1] == ('OBJ',):
                    args = tuple(self.val(a, p.env) for a in n.args)
                    p.steps.append(('E', 'call:' + t[2], t[1], args, node))
            if isinstance(n, ast.NamedExpr) and isinstance(n.target, ast.Name):
                p.env[n.target.id] = self.val(n.value, p.env)

    def assign(self, t, val, p, node, vnode=None):
        if isinstance(t, ast.Name):
            p.steps.append(('E', 'assign', t.id, val, node))
            if t.id in self.mutated and isinstance(vnode, (ast.List, ast.Dict, ast.Set, ast.Call,
                                                          ast.ListComp, ast.DictComp, ast.SetComp)):
                p.env[t.id] = ('OBJ', t.id)
            else:
                p.env[t.id] = val
        elif isinstance(t, (ast.Tuple, ast.List)):
            if isinstance(vnode, (ast.Tuple, ast.List)) and len(vnode.elts) == len(t.elts):
                vals = [self.val(x, p.env) for x in vnode.elts]
                for a, v, vn in zip(t.elts, vals, vnode.elts):
                    self.assign(a, v, p, node, vn)
            else:
                for i, a in enumerate(t.elts):
                    self.assign(a, ('UNPACK', val, i), p, node)
        elif isinstance(t, ast.Attribute):
            p.steps.append(('E', 'attrstore', ('ATTR', self.val(t.value, p.env), t.attr), val, node))
        elif isinstance(t, ast.Subscript):
            p.steps.append(('E', 'substore',
                            ('SUB', self.val(t.value, p.env), self.val(t.slice, p.env)), val, node))
        elif isinstance(t, ast.Starred):
            self.assign(t.value, ('STAR', val), p, node)
        else:
            raise Unsupported(f'assignment target {type(t).__name__}')

    def branch(self, test, p, node):
        """-> (paths where true, paths where false), short-circuit aware"""
        if isinstance(test, ast.UnaryOp) and isinstance(test.op, ast.Not):
            t, f = self.branch(test.operand, p, node)
            return f, t
        if isinstance(test, ast.BoolOp):
            if isinstance(test.op, ast.And):
                trues, falses = [p], []
                for v in test.values:
                    nt = []
                    for x in trues:
                        t, f = self.branch(v, x, node)
                        nt += t
                        falses += f
                    trues = nt
                return trues, falses
            trues, falses = [], [p]
            for v in test.values:
                nf = []
                for x in falses:
                    t, f = self.branch(v, x, node)
                    trues += t
                    nf += f
                falses = nf
            return trues, falses
        if isinstance(test, ast.Constant):
            return ([p], []) if test.value else ([], [p])
        self.effects(test, p, node)
        term = self.val(test, p.env)
        return self.branch_term(term, p, node)

    def branch_term(self, term, p, node):
        """a decision on a value computed earlier (`flag = a and not b` ... `if flag:`) is a decision on its
        operands, in short-circuit order - as if the expression stood in the test itself"""
        if isinstance(term, tuple) and term[:2] == ('UOP', 'Not') and len(term) == 3:
            t, f = self.branch_term(term[2], p, node)
            return f, t
        if isinstance(term, tuple) and term[:1] == ('BOOL',) and len(term) > 3 and term[1] in ('And', 'Or'):
            if term[1] == 'And':
                trues, falses = [p], []
                for v in term[2:]:
                    nt = []
                    for x in trues:
                        t, f = self.branch_term(v, x, node)
                        nt += t
                        falses += f
                    trues = nt
                return trues, falses
            trues, falses = [], [p]
            for v in term[2:]:
                nf = []
                for x in falses:
                    t, f = self.branch_term(v, x, node)
                    trues += t
                    nf += f
                falses = nf
            return trues, falses
        a, b = p.fork(), p.fork()
        a.steps.append(('T', term, True, node))
        b.steps.append(('T', term, False, node))
        return [a], [b]

    def assigned_names(self, stmts):
        out = set()
        for st in stmts:
            for n in ast.walk(st):
                if isinstance(n, ast.Name) and isinstance(n.ctx, ast.Store):
                    out.add(n.id)
                if isinstance(n, (ast.FunctionDef, ast.ClassDef)):
                    out.add(n.name)
        return out

    def loop(self, st, p, head_bind=None):
        lid = next(self.loop_ids)
        names = self.assigned_names(st.body)
        head = p.fork()
        head.steps = []
        for n in names:
            head.env[n] = ('PHI', n, lid)
        if head_bind:
            head_bind(head)
        if isinstance(st, ast.While):
            t, f = self.branch(st.test, head, st)
            body_in = t
        else:
            body_in = [head]
        body_paths = self.block(st.body, body_in)
        for bp in body_paths:
            if bp.end is None:
                bp.end = ('continue',)
        after = p.fork()
        after.steps.append(('LOOP', st, body_paths, lid))
        for n in names:
            after.env[n] = ('PHI', n, lid)
        outs = []
        # return/raise inside the loop body end the function on that path
        for bp in body_paths:
            if bp.end[0] in ('return', 'raise'):
                q = p.fork()
                q.steps.append(('LOOP', st, body_paths, lid))
                q.steps += bp.steps
                q.env = bp.env
                q.end = bp.end
                outs.append(q)
        if st.orelse:
            outs += self.block(st.orelse, [after])
        else:
            outs.append(after)
        return outs

    # ---- inlining of small helper functions (extract-function refactorings must not blind the rules)
    def helper_of(self, call, p):
        if not (isinstance(call, ast.Call) and isinstance(call.func, ast.Name)):
            return None
        t = p.env.get(call.func.id, ('VAR', call.func.id))
        if isinstance(t, tuple) and t[:1] == ('LOCALDEF',) and t[1] in self.local_defs:
            return self.local_defs[t[1]]
        if t == ('VAR', call.func.id) and call.func.id in self.helpers:
            return self.helpers[call.func.id]
        return None

    def inline(self, call, p):
        """-> list of (path, return term) or None when the call cannot be inlined"""
        fn = self.helper_of(call, p)
        if fn is None or self.inline_depth >= 2:
            return None
        a = fn.args
        if a.vararg or a.kwarg or a.kwonlyargs or call.keywords or len(call.args) != len(a.args) \
                or any(isinstance(x, ast.Starred) for x in call.args):
            return None
        if any(isinstance(n, (ast.Yield, ast.YieldFrom, ast.Nonlocal, ast.Global)) for n in ast.walk(fn)):
            return None
        start = Path(dict(p.env), [])
        self.inline_depth += 1
        saved_mut = self.mutated
        try:
            self.mutated = self.mutated | self.mutated_names(fn)
            for prm, arg in zip(a.args, call.args):
                # a freshly built argument that the helper mutates becomes an object of its own
                if prm.arg in self.mutated and isinstance(arg, (ast.List, ast.Dict, ast.Set, ast.Call, ast.ListComp,
                                                               ast.DictComp, ast.SetComp)):
                    self.assign(ast.Name(prm.arg, ast.Store()), self.val(arg, p.env), start, call, arg)
                else:
                    start.env[prm.arg] = self.val(arg, p.env)
            subs = self.block(fn.body, [start])
        finally:
            self.mutated = saved_mut
            self.inline_depth -= 1
        out = []
        for sp in subs:
            q = p.fork()
            q.steps += sp.steps
            if sp.end is not None and sp.end[0] == 'raise':
                q.end = sp.end
                out.append((q, None))
            elif sp.end is not None and sp.end[0] == 'return':
                out.append((q, sp.end[1]))
            else:
                out.append((q, ('CONST', 'None')))
        return out

    def stmt(self, st, p):
        T = type(st)
        # x = A if T else B  /  return A if T else B  behave like if/else
        if T in (ast.Assign, ast.Return, ast.Expr) and isinstance(getattr(st, 'value', None), ast.IfExp):
            ie = st.value
            t, f = self.branch(ie.test, p, st)
            outs = []
            for paths_, val in ((t, ie.body), (f, ie.orelse)):
                for q in paths_:
                    st2 = ast.copy_location(type(st)(**{**{k: getattr(st, k) for k in st._fields}, 'value': val}), st)
                    outs += self.stmt(st2, q)
            return outs
        # a conditional expression nested in the arguments of a call on the right-hand side / in a
        # returned value is lifted: f(a, *(x if c else y)) behaves like `f(a, *x) if c else f(a, *y)`
        if T in (ast.Assign, ast.Return, ast.Expr) and getattr(st, 'value', None) is not None \
                and not isinstance(st.value, ast.IfExp):
            ie = None
            for n in self._walk_no_scopes(st.value):
                if isinstance(n, ast.IfExp):
                    ie = n
                    break
            if ie is not None:
                t, f = self.branch(ie.test, p, st)
                outs = []
                for paths_, val in ((t, ie.body), (f, ie.orelse)):
                    for q in paths_:
                        newval = _ReplaceNode(ie, val).visit(copy.deepcopy_keep(st.value, ie))
                        st2 = ast.copy_location(type(st)(**{**{k: getattr(st, k) for k in st._fields},
                                                            'value': newval}), st)
                        ast.fix_missing_locations(st2)
                        outs += self.stmt(st2, q)
                return outs
        if T in (ast.Assign, ast.Expr) and isinstance(st.value, ast.Call):
            res = self.inline(st.value, p)
            if res is not None:
                outs = []
                for q, ret in res:
                    if q.end is not None:
                        outs.append(q)
                        continue
                    if T is ast.Assign:
                        for t in st.targets:
                            self.assign(t, ret, q, st)
                    outs.append(q)
                return outs
        if T is ast.Return and isinstance(st.value, ast.Call):
            res = self.inline(st.value, p)
            if res is not None:
                outs = []
                for q, ret in res:
                    if q.end is None:
                        q.end = ('return', ret, st)
                    outs.append(q)
                return outs
        if T is ast.Expr:
            if isinstance(st.value, ast.Constant):
                return [p]
            self.effects(st.value, p, st)
            if isinstance(st.value, (ast.Yield, ast.YieldFrom)):
                p.steps.append(('Y', self.val(st.value.value, p.env), st))
            else:
                p.steps.append(('X', self.val(st.value, p.env), st))
            return [p]
        if T is ast.Assign:
            self.effects(st.value, p, st)
            val = self.val(st.value, p.env)
            if isinstance(st.value, (ast.Yield, ast.YieldFrom)):
                p.steps.append(('Y', self.val(st.value.value, p.env), st))
            for t in st.targets:
                self.assign(t, val, p, st, st.value)
            return [p]
        if T is ast.AnnAssign:
            if st.value is not None:
                self.assign(st.target, self.val(st.value, p.env), p, st, st.value)
            return [p]
        if T is ast.AugAssign:
            cur = self.val(ast.parse(ast.unparse(st.target), mode='eval').body, p.env)
            val = ('OP', type(st.op).__name__, cur, self.val(st.value, p.env))
            self.assign(st.target, val, p, st)
            return [p]
        if T is ast.If:
            t, f = self.branch(st.test, p, st)
            return self.block(st.body, t) + self.block(st.orelse, f)
        if T is ast.While:
            return self.loop(st, p)
        if T is ast.For:
            it = self.val(st.iter, p.env)

            def bind(head):
                self.assign(st.target, ('ITEM', it), head, st)
            return self.loop(st, p, bind)
        if T is ast.Return:
            if st.value is not None:
                self.effects(st.value, p, st)
            p.end = ('return', p.unmutated_value(self.val(st.value, p.env)), st)
            return [p]
        if T is ast.Raise:
            p.end = ('raise', self.val(st.exc, p.env), st)
            return [p]
        if T is ast.Break:
            p.end = ('break',)
            return [p]
        if T is ast.Continue:
            p.end = ('continue',)
            return [p]
        if T is ast.Pass:
            return [p]
        if T in (ast.FunctionDef, ast.ClassDef):
            if T is ast.FunctionDef:
                self.local_defs[st.name] = st
            p.env[st.name] = ('LOCALDEF', st.name)
            p.steps.append(('E', 'def', st.name, ('LOCALDEF', st.name), st))
            return [p]
        if T is ast.Try:
            normal = self.block(st.body, [p.fork()])
            outs = []
            for q in normal:
                if q.end is None and st.orelse:
                    outs += self.block(st.orelse, [q])
                else:
                    outs.append(q)
            names = self.assigned_names(st.body)
            for h in st.handlers:
                q = p.fork()
                for n in names:
                    q.env[n] = ('PHI', n, 0)
                q.steps.append(('T', ('EXCEPT', self.val(h.type, p.env)), True, h))
                if h.name:
                    q.env[h.name] = ('EXC',)
                outs += self.block(h.body, [q])
            if st.finalbody:
                outs = self.block(st.finalbody, [q for q in outs if q.end is None]) + [
                    q for q in outs if q.end is not None]
            return outs
        if T is ast.With:
            for item in st.items:
                v = self.val(item.context_expr, p.env)
                p.steps.append(('X', v, st))
                if item.optional_vars is not None:
                    self.assign(item.optional_vars, ('ENTER', v), p, st)
            return self.block(st.body, [p])
        if T in (ast.Global, ast.Nonlocal):
            p.steps.append(('E', 'scope:' + T.__name__.lower(), tuple(st.names), None, st))
            return [p]
        if T is ast.Assert:
            t, f = self.branch(st.test, p, st)
            for q in f:
                q.end = ('raise', ('CALL', ('VAR', 'AssertionError')), st)
            return t + f
        if T is ast.Delete:
            for t in st.targets:
                p.steps.append(('E', 'del', self.val(t, p.env) if not isinstance(t, ast.Name)
                                else ('VAR', t.id), None, st))
            return [p]
        if T in (ast.Import, ast.ImportFrom):
            return [p]
        raise Unsupported(f'statement {T.__name__} at line {getattr(st, "lineno", "?")}')


def map_path(path, fn):
    """a copy of the path with fn applied to every term of every step (loops included)"""
    def m(x):
        return fn(x) if isinstance(x, tuple) else x
    q = Path(dict((k, m(v)) for k, v in path.env.items()), [], None)
    for s in path.steps:
        if s[0] == 'LOOP':
            q.steps.append(('LOOP', s[1], [map_path(bp, fn) for bp in s[2]], s[3]))
        elif s[0] == 'T':
            q.steps.append(('T', m(s[1])) + tuple(s[2:]))
        elif s[0] == 'E':
            q.steps.append(('E', s[1], m(s[2]), m(s[3]) if isinstance(s[3], tuple) else s[3]) + tuple(s[4:]))
        elif s[0] in ('X', 'Y'):
            q.steps.append((s[0], m(s[1])) + tuple(s[2:]))
        else:
            q.steps.append(s)
    if path.end is not None:
        q.end = path.end if len(path.end) < 2 else (path.end[0], m(path.end[1])) + tuple(path.end[2:])
    return q


def fuse_comprehensions(t):
    """(f(k, v) for k, v in ((a(x), b(x)) for x in it))  ->  (f(a(x), b(x)) for x in it); also
    list(<generator>) inside a comprehension source is looked through"""
    if not isinstance(t, tuple):
        return t
    t = tuple(fuse_comprehensions(x) for x in t)
    if t[:1] == ('COMP',) and len(t) == 4 and len(t[3]) == 3:
        gen = t[3]
        src = gen[2]
        while isinstance(src, tuple) and src[:2] == ('CALL', ('VAR', 'list')) and len(src) == 3:
            src = src[2]
        if isinstance(src, tuple) and src[:1] == ('COMP',) and len(src) == 4 and len(src[3]) == 3:
            names = [n.strip() for n in gen[1].strip('()').split(',') if n.strip()]
            inner_elt = src[2]
            if len(names) == 1:
                sub = {('ITEM', names[0]): inner_elt}
            elif isinstance(inner_elt, tuple) and inner_elt[:1] == ('TUPLE',) and len(inner_elt) - 1 == len(names):
                sub = {('ITEM', n): v for n, v in zip(names, inner_elt[1:])}
            else:
                return t

            def rep(x):
                if x in sub:
                    return sub[x]
                if isinstance(x, tuple):
                    return tuple(rep(y) for y in x)
                return x
            return ('COMP', t[1], rep(t[2]), src[3])
    return t


def contains(t, pred):
    if pred(t):
        return True
    if isinstance(t, tuple):
        return any(contains(x, pred) for x in t)
    return False


def subterms(t):
    yield t
    if isinstance(t, tuple):
        for x in t:
            yield from subterms(x)
