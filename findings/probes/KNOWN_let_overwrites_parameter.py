import sourcer
g = sourcer.Grammar(r'''
start = T("b")
T(x) = (let x = "a" in "zz") | x
''')
try:
    print(repr(g.parse("b")))
except Exception as e:
    print(type(e).__name__, str(e)[:100])
try:
    print('on "a":', repr(g.parse("a")))
except Exception as e:
    print(type(e).__name__, str(e)[:100])
