"""C10 - class instance spans: recording (E1) and conversion (path rules)."""
from ..common import Finding, AnalysisError
from .. import load, routes, finalize, e1run, walkers
from . import shared


def run(rep, tier):
    rep.explanation = (
        '(a) Seq-with-constructor skeletons (every arity, name and constructor-argument pattern, child '
        'flag state, convention): the span stored on the freshly constructed instance is (position at '
        'entry, position at the success exit) - by C01/C04 exactly the consumed span including the '
        'trailing skip; failed alternatives contribute nothing (G1). (b) _finalize_parse_info converts '
        'every instance yielded by visit(nodes) (visit de-duplicates by identity: C15 rules re-used), '
        'start from the recorded start, end made inclusive, each position built from one index and '
        'the matching tables, guarded at the end of the input; tables from the whole text. (c) '
        'position_info is written only by the Seq emission and by the conversion (who-may-write).')
    rep.not_decided += ['nesting / disjointness of spans (consequences of monotone positions)']
    shared.describe_rules(rep, only=('S-span', 'G1-no-trace'))
    for rid, txt in [
        ('SPAN-convert', 'conversion: for node in visit(nodes); start = recorded start; end = recorded end - 1 '
                         '(not before start); _PositionInfo(start, end) of positions built from one index'),
        ('SPAN-convert-once', 'only raw spans are converted (objects finalised by a nested parse are left alone)'),
        ('TABLE-index', 'guarded table lookups'), ('TABLE-whole-text', 'tables from the whole text'),
        ('DRIVER-coordinates', 'the driver never rebinds the text / position it was given while rule functions run'),
        ('TABLE-per-call', 'tables computed from the text of the call, not taken from a longer-lived store'),
        ('LINECOL-map', 'the tables have one entry per element; only a line feed starts a line; columns count from 1'),
        ('SPAN-writers', 'position_info is stored only by Seq._compile and _finalize_parse_info'),
    ]:
        rep.rule(rid, txt)
    total = e1run.run(rep, ['Seq'], tier, select=lambda f: f['rule'] in ('S-span', 'G1-no-trace', 'S-flow'))
    rep.floor('configurations of Seq', total.get('Seq', 0), 1300)
    rep.rule('SPAN-start-first', 'in the emitted parse function of every class the start of the span is captured from _pos '
                                 'before anything moves the position (class start rules with ignore patterns included)')
    rep.rule('SPAN-fresh-instance', 'every match of a class builds a new instance to carry its span')
    rfound, rstats, _ = routes.run(rep, 'C10', ['SPAN-start-first', 'SPAN-fresh-instance'])
    rep.floor('route facts: class_span_functions', rstats.get('class_span_functions', 0), 20)
    for what, tree, rel in routes.runtime_subjects():
        fns = load.functions_of(tree)
        found = []
        bad = lambda rule, msg: found.append((rule, msg))
        n = finalize.finalize_rules(fns, what, bad)
        n += finalize.linecol_rules(fns, what, bad)     # the tables the spans are converted with (lemma shared with C09)
        vfound = []
        walkers.check_visit(fns['visit'], f'{what}:visit', lambda r, m: vfound.append((r, m)))
        # the driver hands the caller's text and offsets to the rule functions and to the conversion
        from .. import trampoline
        import ast as _ast
        dname, dfn, dcall = trampoline.find_trampoline(tree, what)
        cc = load.call_constant()
        for x in _ast.walk(dfn):
            if isinstance(x, _ast.Compare) and isinstance(x.left, _ast.Subscript) \
                    and isinstance(x.comparators[0], _ast.Constant):
                cc = x.comparators[0].value
        _, tbad, _ = trampoline.analyse(dfn, cc, bool(dfn.args.args and dfn.args.args[0].arg == '_ctx'), what)
        for rule, msg in tbad:
            if rule == 'DRIVER-coordinates':
                rep.add(Finding(rule, f'{rel}:runtime', '', msg, f'{rel} ({what})'))
        rep.count('runtime copies analysed')
        rep.obligations += n
        rep.discharged += n - len(found)
        for rule, msg in found:
            if rule in ('SPAN-convert', 'SPAN-convert-once', 'TABLE-index', 'TABLE-whole-text', 'LINECOL-map',
                        'TABLE-per-call'):
                rep.add(Finding(rule, f'{rel}:runtime', '', msg, f'{rel} ({what})'))
        for rule, msg in vfound:
            if rule in ('C15-dedup', 'C15-dedup-identity', 'C15-visit-yield', 'C15-children'):
                rep.add(Finding(rule, f'{rel}:visit', '', msg, f'{rel} ({what})'))
        # who may write position_info
        import ast
        for fname, fn in fns.items():
            for node in ast.walk(fn):
                if isinstance(node, ast.Attribute) and node.attr == 'position_info' \
                        and isinstance(node.ctx, (ast.Store, ast.Del)) and fname != '_finalize_parse_info' \
                        and not fname.startswith(('_try_', routes.helper_prefix())):
                    rep.add(Finding('SPAN-writers', f'{rel}:{fname}', '', f'{what}: {fname} writes position_info',
                                    f'{rel}:{fname}'))
    rep.floor('runtime copies analysed', rep.instances.get('runtime copies analysed', 0), 3)
    from .. import controls
    controls.e1_controls(rep)
